"""Program model: parse /repo/propka (or --root) with ``ast`` only.

Nothing here imports or executes propka.  Every check calls ``load(root)`` on
each run, so verdicts always reflect the current working tree.
"""
import ast
import hashlib
import json
import os


class AnalysisError(Exception):
    """An anchor is missing or an abstract value needed for a verdict is
    unknown.  Mapped to exit code 2 (never a violation, never a pass)."""


SKIP_MODULES = {'_version'}


def _names_loaded(node, name):
    return [n for n in ast.walk(node) if isinstance(n, ast.Name) and n.id == name
            and isinstance(n.ctx, ast.Load)]


def inline_test_temporaries(tree):
    """Normalisation: ``t = E`` immediately followed by ``if t:``, ``if not t:``,
    ``assert t`` or ``return t``, where ``t`` is bound once and read once in
    its function, is read as ``if E:`` / ``return E``.  The two spellings are
    equivalent (one evaluation, same value); the rules are stated on tests and
    returned expressions, so they should not depend on which one is used.
    Returns the number of rewrites."""
    count = 0
    for fn in [n for n in ast.walk(tree) if isinstance(n, (ast.FunctionDef, ast.AsyncFunctionDef))]:
        stores, loads = {}, {}
        for n in ast.walk(fn):
            if isinstance(n, ast.Name):
                d = stores if isinstance(n.ctx, (ast.Store, ast.Del)) else loads
                d[n.id] = d.get(n.id, 0) + 1
        params = {a.arg for a in fn.args.args + fn.args.kwonlyargs + fn.args.posonlyargs}
        for holder in ast.walk(fn):
            for field in ('body', 'orelse', 'finalbody'):
                block = getattr(holder, field, None)
                if not (isinstance(block, list) and block and isinstance(block[0], ast.stmt)):
                    continue
                i = 0
                while i + 1 < len(block):
                    st, nxt = block[i], block[i + 1]
                    if isinstance(st, ast.Assign) and len(st.targets) == 1 \
                            and isinstance(st.targets[0], ast.Name):
                        name = st.targets[0].id
                        if stores.get(name) == 1 and loads.get(name) == 1 and name not in params:
                            slot = None
                            if isinstance(nxt, (ast.If, ast.Assert)):
                                test = nxt.test
                                if isinstance(test, ast.Name) and test.id == name:
                                    slot = ('test', None)
                                elif isinstance(test, ast.UnaryOp) and isinstance(test.op, ast.Not) \
                                        and isinstance(test.operand, ast.Name) and test.operand.id == name:
                                    slot = ('operand', test)
                            elif isinstance(nxt, ast.Return) and isinstance(nxt.value, ast.Name) \
                                    and nxt.value.id == name:
                                slot = ('value', None)
                            if slot is not None:
                                if slot[0] == 'test':
                                    nxt.test = st.value
                                elif slot[0] == 'operand':
                                    slot[1].operand = st.value
                                else:
                                    nxt.value = st.value
                                del block[i]
                                count += 1
                                continue
                    i += 1
    return count


def inline_attribute_aliases(tree):
    """Normalisation: a local bound once, by a top-level statement of its
    function, to a plain attribute chain of a name that the function never
    re-binds (``par = self.parameters``, ``opts = molecule.options``) is read
    as that chain wherever it is used - provided no attribute named in the
    chain is stored to anywhere in the function.  Rules then see
    ``self.parameters.desolv_cutoff`` whether or not the author went through a
    local.  Returns the number of aliases inlined."""
    import copy
    count = 0
    for fn in [n for n in ast.walk(tree) if isinstance(n, (ast.FunctionDef, ast.AsyncFunctionDef))]:
        stores = {}
        attr_stores = set()
        nested_names = set()
        for n in ast.walk(fn):
            if isinstance(n, ast.Name) and isinstance(n.ctx, (ast.Store, ast.Del)):
                stores[n.id] = stores.get(n.id, 0) + 1
            if isinstance(n, ast.Attribute) and isinstance(n.ctx, (ast.Store, ast.Del)):
                attr_stores.add(n.attr)
            if n is not fn and isinstance(n, (ast.FunctionDef, ast.AsyncFunctionDef, ast.Lambda, ast.ClassDef)):
                for m in ast.walk(n):
                    if isinstance(m, ast.Name):
                        nested_names.add(m.id)
            if isinstance(n, (ast.Global, ast.Nonlocal)):
                nested_names.update(n.names)
        i = 0
        while i < len(fn.body):
            st = fn.body[i]
            i += 1
            if not (isinstance(st, ast.Assign) and len(st.targets) == 1
                    and isinstance(st.targets[0], ast.Name) and isinstance(st.value, ast.Attribute)):
                continue
            name = st.targets[0].id
            chain, attrs = st.value, []
            while isinstance(chain, ast.Attribute):
                attrs.append(chain.attr)
                chain = chain.value
            if not isinstance(chain, ast.Name) or stores.get(name) != 1 or name in nested_names \
                    or stores.get(chain.id, 0) != 0 or chain.id == name or set(attrs) & attr_stores:
                continue
            uses = [n for n in ast.walk(fn) if isinstance(n, ast.Name) and n.id == name
                    and isinstance(n.ctx, ast.Load)]
            for u in uses:
                rep = copy.deepcopy(st.value)
                for sub in ast.walk(rep):
                    ast.copy_location(sub, u)
                u.__class__ = ast.Attribute
                u.__dict__.clear()
                u.__dict__.update(rep.__dict__)
            i -= 1
            del fn.body[i]
            if not fn.body:
                fn.body.append(ast.copy_location(ast.Pass(), st))
            count += 1
    return count


def _pure_constant(node, known):
    """Is ``node`` an expression built from literals (and already known module
    constants) with immutable value: numbers, strings, tuples, frozenset(...),
    arithmetic, math.* calls?"""
    if isinstance(node, ast.Constant):
        return True
    if isinstance(node, ast.Name):
        return node.id in known
    if isinstance(node, ast.Tuple):
        return all(_pure_constant(e, known) for e in node.elts)
    if isinstance(node, ast.UnaryOp) and isinstance(node.op, (ast.USub, ast.UAdd)):
        return _pure_constant(node.operand, known)
    if isinstance(node, ast.BinOp) and isinstance(node.op, (ast.Add, ast.Sub, ast.Mult, ast.Div, ast.Pow)):
        return _pure_constant(node.left, known) and _pure_constant(node.right, known)
    if isinstance(node, ast.Call) and not node.keywords:
        fn = node.func
        name = fn.id if isinstance(fn, ast.Name) else (
            '%s.%s' % (fn.value.id, fn.attr) if isinstance(fn, ast.Attribute) and isinstance(fn.value, ast.Name)
            else None)
        if name in ('ord', 'chr', 'len', 'abs', 'float', 'int', 'frozenset', 'tuple') or \
                (name or '').startswith('math.'):
            return all(_pure_constant(a, known) or (
                isinstance(a, (ast.Set, ast.List)) and all(_pure_constant(e, known) for e in a.elts))
                for a in node.args)
    return False


def propagate_module_constants(tree):
    """Normalisation: a module-level name bound once to an immutable constant
    expression (``_TER = 'TER'``, ``RIGHT_ANGLE = math.radians(90)``,
    ``DETERMINANT_TYPES = ('sidechain', 'backbone', 'coulomb')``) is read as
    that expression inside the functions of the module, unless the function
    binds the name itself.  Rules then see the literal whether or not it has
    been given a name.  The defining statement stays.  Returns the number of
    names propagated."""
    import copy
    stores = {}
    for n in ast.walk(tree):
        if isinstance(n, ast.Name) and isinstance(n.ctx, (ast.Store, ast.Del)):
            stores[n.id] = stores.get(n.id, 0) + 1
        if isinstance(n, (ast.Global, ast.Nonlocal)):
            for nm in n.names:
                stores[nm] = stores.get(nm, 0) + 2
    # names compared by identity or used as annotations stand for themselves
    identity_names = set()
    for n in ast.walk(tree):
        if isinstance(n, ast.Compare) and any(isinstance(o, (ast.Is, ast.IsNot)) for o in n.ops):
            identity_names |= {x.id for x in ast.walk(n) if isinstance(x, ast.Name)}
        if isinstance(n, ast.AnnAssign):
            identity_names |= {x.id for x in ast.walk(n.annotation) if isinstance(x, ast.Name)}
        if isinstance(n, ast.arg) and n.annotation is not None:
            identity_names |= {x.id for x in ast.walk(n.annotation) if isinstance(x, ast.Name)}
    consts = {}
    for st in tree.body:
        tgt = val = None
        if isinstance(st, ast.Assign) and len(st.targets) == 1 and isinstance(st.targets[0], ast.Name):
            tgt, val = st.targets[0].id, st.value
        elif isinstance(st, ast.AnnAssign) and isinstance(st.target, ast.Name) and st.value is not None:
            tgt, val = st.target.id, st.value
        if tgt is None or stores.get(tgt) != 1 or tgt.startswith('__') or tgt in identity_names:
            continue
        if _pure_constant(val, consts):
            # expand references to earlier constants inside the value
            val = copy.deepcopy(val)
            for sub in ast.walk(val):
                if isinstance(sub, ast.Name) and sub.id in consts:
                    rep = copy.deepcopy(consts[sub.id])
                    sub.__class__ = rep.__class__
                    sub.__dict__.clear()
                    sub.__dict__.update(rep.__dict__)
            consts[tgt] = val
    if not consts:
        return 0
    used = set()
    for fn in [n for n in ast.walk(tree) if isinstance(n, (ast.FunctionDef, ast.AsyncFunctionDef))]:
        local = {a.arg for a in fn.args.args + fn.args.kwonlyargs + fn.args.posonlyargs}
        if fn.args.vararg:
            local.add(fn.args.vararg.arg)
        if fn.args.kwarg:
            local.add(fn.args.kwarg.arg)
        for n in ast.walk(fn):
            if isinstance(n, ast.Name) and isinstance(n.ctx, (ast.Store, ast.Del)):
                local.add(n.id)
        for n in ast.walk(fn):
            if isinstance(n, ast.Name) and isinstance(n.ctx, ast.Load) and n.id in consts \
                    and n.id not in local:
                rep = copy.deepcopy(consts[n.id])
                for sub in ast.walk(rep):
                    ast.copy_location(sub, n)
                used.add(n.id)
                n.__class__ = rep.__class__
                n.__dict__.clear()
                n.__dict__.update(rep.__dict__)
    return len(used)


def split_tuple_assignments(tree):
    """Normalisation: ``a, b = x, y`` with as many expressions as targets, none
    of which reads a target (other than its own: ``a, b = a + p, b + q``), is
    read as ``a = x`` followed by ``b = y``."""
    count = 0
    for holder in ast.walk(tree):
        for field in ('body', 'orelse', 'finalbody'):
            block = getattr(holder, field, None)
            if not (isinstance(block, list) and block and isinstance(block[0], ast.stmt)):
                continue
            new = []
            for st in block:
                if isinstance(st, ast.Assign) and len(st.targets) == 1 \
                        and isinstance(st.targets[0], (ast.Tuple, ast.List)) \
                        and isinstance(st.value, (ast.Tuple, ast.List)) \
                        and len(st.targets[0].elts) == len(st.value.elts) \
                        and not any(isinstance(e, ast.Starred) for e in st.targets[0].elts + st.value.elts):
                    tnames = {n.id for t in st.targets[0].elts for n in ast.walk(t) if isinstance(n, ast.Name)}
                    reads = {n.id for v in st.value.elts for n in ast.walk(v) if isinstance(n, ast.Name)}
                    pure = not any(isinstance(n, ast.Call) for v in st.value.elts for n in ast.walk(v)) or \
                        all(isinstance(t, ast.Name) for t in st.targets[0].elts)
                    # `a, b = a + x, b + y`: element i reads no target but its own - the
                    # same as the two statements in sequence
                    own_only = all(isinstance(t, ast.Name) for t in st.targets[0].elts) and \
                        len({t.id for t in st.targets[0].elts}) == len(st.targets[0].elts) and all(
                        not (({n.id for n in ast.walk(v) if isinstance(n, ast.Name)} & tnames) - {t.id})
                        for t, v in zip(st.targets[0].elts, st.value.elts))
                    if (not (tnames & reads) or own_only) and pure:
                        for t, v in zip(st.targets[0].elts, st.value.elts):
                            new.append(ast.copy_location(ast.Assign(targets=[t], value=v), st))
                        count += 1
                        continue
                new.append(st)
            setattr(holder, field, new)
    return count


def unroll_guarded_unpacking(tree):
    """Normalisation: ``a, b = [f(x) for x in S]`` inside the branch of a test
    ``len(S) == 2`` is read as ``a = f(S[0]); b = f(S[1])`` - the comprehension
    has exactly as many elements as the guard says."""
    import copy
    count = 0

    class Sub(ast.NodeTransformer):
        def __init__(self, name, rep):
            self.name, self.rep = name, rep

        def visit_Name(self, node):
            if node.id == self.name and isinstance(node.ctx, ast.Load):
                return ast.copy_location(copy.deepcopy(self.rep), node)
            return node

    def conj(test):
        if isinstance(test, ast.BoolOp) and isinstance(test.op, ast.And):
            out = []
            for v in test.values:
                out.extend(conj(v))
            return out
        return [test]

    def visit(block, facts):
        new = []
        for st in block:
            if isinstance(st, ast.Assign) and len(st.targets) == 1 \
                    and isinstance(st.targets[0], (ast.Tuple, ast.List)) \
                    and all(isinstance(e, ast.Name) for e in st.targets[0].elts) \
                    and isinstance(st.value, ast.ListComp) and len(st.value.generators) == 1:
                g = st.value.generators[0]
                n = len(st.targets[0].elts)
                src = ast.unparse(g.iter)
                known = any(isinstance(f, ast.Compare) and len(f.ops) == 1 and isinstance(f.ops[0], ast.Eq)
                            and ast.unparse(f.left) == 'len(%s)' % src
                            and isinstance(f.comparators[0], ast.Constant) and f.comparators[0].value == n
                            for f in facts)
                pure_src = not any(isinstance(x, ast.Call) for x in ast.walk(g.iter))
                if known and pure_src and not g.ifs and not g.is_async and isinstance(g.target, ast.Name) \
                        and not any(isinstance(x, (ast.ListComp, ast.GeneratorExp, ast.Lambda))
                                    for x in ast.walk(st.value.elt)):
                    nonlocal count
                    for i, t in enumerate(st.targets[0].elts):
                        item = ast.Subscript(value=copy.deepcopy(g.iter), slice=ast.Constant(value=i), ctx=ast.Load())
                        val = Sub(g.target.id, item).visit(copy.deepcopy(st.value.elt))
                        new.append(ast.copy_location(ast.Assign(targets=[t], value=val), st))
                    count += 1
                    continue
            if isinstance(st, ast.If):
                st.body = visit(st.body, facts + conj(st.test))
                st.orelse = visit(st.orelse, facts)
            else:
                for field in ('body', 'orelse', 'finalbody'):
                    sub = getattr(st, field, None)
                    if isinstance(sub, list) and sub and isinstance(sub[0], ast.stmt):
                        inner_facts = [] if isinstance(st, (ast.FunctionDef, ast.ClassDef, ast.While, ast.For)) else facts
                        setattr(st, field, visit(sub, inner_facts))
                if isinstance(st, ast.Try):
                    for h in st.handlers:
                        h.body = visit(h.body, facts)
            new.append(st)
            # a statement that calls something with (or on) the measured list may change its length
            if any(isinstance(x, ast.Call) for x in ast.walk(st)):
                touched = {x.id for x in ast.walk(st) if isinstance(x, ast.Name)}
                facts = [f for f in facts if not ({x.id for x in ast.walk(f) if isinstance(x, ast.Name)} & touched)]
        return new
    tree.body = visit(tree.body, [])
    if count:
        ast.fix_missing_locations(tree)
    return count


def unroll_genexp_loops(tree):
    """Normalisation: ``for T in (E for a in xs for b in ys if c): BODY`` - the
    generator expression written in the loop header or bound to a local by the
    statement just before and used nowhere else - is read as the nested loops
    it abbreviates: ``for a in xs: for b in ys: if c: T = E; BODY``.  BODY must
    not break (a break would have to leave all of the loops)."""
    import copy
    count = 0
    for fn in ast.walk(tree):
        if not isinstance(fn, (ast.FunctionDef, ast.AsyncFunctionDef)):
            continue
        for holder in ast.walk(fn):
            for field in ('body', 'orelse', 'finalbody'):
                block = getattr(holder, field, None)
                if not (isinstance(block, list) and block and isinstance(block[0], ast.stmt)):
                    continue
                new = []
                for st in block:
                    gen, drop_prev = None, False
                    if isinstance(st, ast.For) and not st.orelse:
                        if isinstance(st.iter, ast.GeneratorExp):
                            gen = st.iter
                        elif isinstance(st.iter, ast.Name) and new and isinstance(new[-1], ast.Assign) \
                                and len(new[-1].targets) == 1 and isinstance(new[-1].targets[0], ast.Name) \
                                and new[-1].targets[0].id == st.iter.id \
                                and isinstance(new[-1].value, ast.GeneratorExp) \
                                and sum(1 for n in ast.walk(fn) if isinstance(n, ast.Name)
                                        and n.id == st.iter.id) == 2:
                            gen, drop_prev = new[-1].value, True
                    if gen is None or any(g.is_async for g in gen.generators):
                        new.append(st)
                        continue
                    # no break of this loop in BODY; names of the generator do not clash with BODY stores
                    def own_breaks(body):
                        found = []

                        def walk(n, in_loop):
                            for c in ast.iter_child_nodes(n):
                                if isinstance(c, (ast.FunctionDef, ast.Lambda, ast.ClassDef)):
                                    continue
                                if isinstance(c, ast.Break) and not in_loop:
                                    found.append(c)
                                walk(c, in_loop or isinstance(c, (ast.For, ast.While)))
                        for b in body:
                            if isinstance(b, ast.Break):
                                found.append(b)
                            walk(b, isinstance(b, (ast.For, ast.While)))
                        return found
                    gen_names = {n.id for g in gen.generators for n in ast.walk(g.target) if isinstance(n, ast.Name)}
                    other_uses = {n.id for n in ast.walk(fn) if isinstance(n, ast.Name) and n.id in gen_names
                                  and not any(n is x for x in ast.walk(gen))}
                    tgt_names = {n.id for n in ast.walk(st.target) if isinstance(n, ast.Name)}
                    if own_breaks(st.body) or (other_uses - tgt_names):
                        new.append(st)
                        continue
                    if drop_prev:
                        new.pop()
                    same = ast.unparse(st.target).strip('()') == ast.unparse(gen.elt).strip('()')
                    inner = ([] if same else [ast.copy_location(ast.Assign(targets=[st.target], value=gen.elt), st)]) \
                        + list(st.body)
                    for g in reversed(gen.generators):
                        for cond in reversed(g.ifs):
                            inner = [ast.copy_location(ast.If(test=cond, body=inner, orelse=[]), st)]
                        inner = [ast.copy_location(ast.For(target=g.target, iter=g.iter, body=inner, orelse=[]), st)]
                    new.extend(inner)
                    count += 1
                setattr(holder, field, new)
    if count:
        ast.fix_missing_locations(tree)
    return count


def unroll_record_comprehensions(tree):
    """Normalisation: ``rows = [(a, f(a)) for a in xs if c]`` - a list of tuple
    records built by one comprehension into a local - is read as the loop it
    abbreviates: ``rows = []; for a in xs: if c: rows.append((a, f(a)))``."""
    count = 0
    for holder in ast.walk(tree):
        for field in ('body', 'orelse', 'finalbody'):
            block = getattr(holder, field, None)
            if not (isinstance(block, list) and block and isinstance(block[0], ast.stmt)):
                continue
            new = []
            for st in block:
                tgt = st.targets[0] if isinstance(st, ast.Assign) and len(st.targets) == 1 else (
                    st.target if isinstance(st, ast.AnnAssign) else None)
                val = getattr(st, 'value', None)
                if isinstance(tgt, ast.Name) and isinstance(val, ast.ListComp) and len(val.generators) == 1 \
                        and not val.generators[0].is_async and isinstance(val.elt, ast.Tuple) \
                        and not any(isinstance(n, ast.Name) and n.id == tgt.id for n in ast.walk(val)):
                    g = val.generators[0]
                    empty = ast.copy_location(ast.List(elts=[], ctx=ast.Load()), val)
                    if isinstance(st, ast.Assign):
                        new.append(ast.copy_location(ast.Assign(targets=[tgt], value=empty), st))
                    else:
                        new.append(ast.copy_location(ast.AnnAssign(target=tgt, annotation=st.annotation,
                                                                   value=empty, simple=st.simple), st))
                    inner = [ast.copy_location(ast.Expr(value=ast.Call(
                        func=ast.Attribute(value=ast.Name(id=tgt.id, ctx=ast.Load()), attr='append', ctx=ast.Load()),
                        args=[val.elt], keywords=[])), st)]
                    for cond in reversed(g.ifs):
                        inner = [ast.copy_location(ast.If(test=cond, body=inner, orelse=[]), st)]
                    new.append(ast.copy_location(ast.For(target=g.target, iter=g.iter, body=inner, orelse=[]), st))
                    count += 1
                    continue
                new.append(st)
            setattr(holder, field, new)
    if count:
        ast.fix_missing_locations(tree)
    return count


def unroll_join_tails(tree):
    """Normalisation: ``return A + ''.join(C)`` / ``x = A + ''.join(C)`` where C
    is a comprehension (or a local bound to one by the statement just before,
    and used nowhere else) is read as the accumulation it abbreviates:
    ``x = A; for ...: if ...: x += E; return x``."""
    count = 0
    for fn in ast.walk(tree):
        if not isinstance(fn, (ast.FunctionDef, ast.AsyncFunctionDef)):
            continue
        for holder in ast.walk(fn):
            for field in ('body', 'orelse', 'finalbody'):
                block = getattr(holder, field, None)
                if not (isinstance(block, list) and block and isinstance(block[0], ast.stmt)):
                    continue
                new = []
                for st in block:
                    v = st.value if isinstance(st, (ast.Return, ast.Assign)) else None
                    ok = isinstance(v, ast.BinOp) and isinstance(v.op, ast.Add) \
                        and isinstance(v.right, ast.Call) and isinstance(v.right.func, ast.Attribute) \
                        and v.right.func.attr == 'join' and isinstance(v.right.func.value, ast.Constant) \
                        and v.right.func.value.value == '' and len(v.right.args) == 1 \
                        and (isinstance(st, ast.Return) or (len(st.targets) == 1
                                                            and isinstance(st.targets[0], ast.Name)))
                    if not ok:
                        new.append(st)
                        continue
                    comp = v.right.args[0]
                    drop_prev = False
                    if isinstance(comp, ast.Name) and new and isinstance(new[-1], ast.Assign) \
                            and len(new[-1].targets) == 1 and isinstance(new[-1].targets[0], ast.Name) \
                            and new[-1].targets[0].id == comp.id \
                            and isinstance(new[-1].value, (ast.ListComp, ast.GeneratorExp)) \
                            and sum(1 for n in ast.walk(fn) if isinstance(n, ast.Name) and n.id == comp.id) == 2 \
                            and not any(isinstance(n, ast.Name) and n.id == comp.id for n in ast.walk(v.left)):
                        comp, drop_prev = new[-1].value, True
                    if not isinstance(comp, (ast.ListComp, ast.GeneratorExp)) or any(g.is_async for g in comp.generators):
                        new.append(st)
                        continue
                    acc = st.targets[0].id if isinstance(st, ast.Assign) else 'joined_text'
                    if any(isinstance(n, ast.Name) and n.id == acc for n in ast.walk(comp)) or \
                            any(isinstance(n, ast.Name) and n.id == acc for n in ast.walk(v.left)):
                        new.append(st)
                        continue
                    if drop_prev:
                        new.pop()
                    inner = [ast.copy_location(ast.AugAssign(target=ast.Name(id=acc, ctx=ast.Store()),
                                                             op=ast.Add(), value=comp.elt), st)]
                    for gen in reversed(comp.generators):
                        for cond in reversed(gen.ifs):
                            inner = [ast.copy_location(ast.If(test=cond, body=inner, orelse=[]), st)]
                        inner = [ast.copy_location(ast.For(target=gen.target, iter=gen.iter, body=inner,
                                                           orelse=[]), st)]
                    new.append(ast.copy_location(ast.Assign(targets=[ast.Name(id=acc, ctx=ast.Store())],
                                                            value=v.left), st))
                    new.extend(inner)
                    if isinstance(st, ast.Return):
                        new.append(ast.copy_location(ast.Return(value=ast.Name(id=acc, ctx=ast.Load())), st))
                    count += 1
                setattr(holder, field, new)
    if count:
        ast.fix_missing_locations(tree)
    return count


def unroll_join_accumulations(tree):
    """Normalisation: ``s += ''.join(E for x in xs if c)`` (generator or list
    comprehension, empty separator) is read as the loop it abbreviates:
    ``for x in xs: if c: s += E``.  Rules about what a report loop emits, and
    under which conditions, then see one form.  Returns the number unrolled."""
    count = 0
    for holder in ast.walk(tree):
        for field in ('body', 'orelse', 'finalbody'):
            block = getattr(holder, field, None)
            if not (isinstance(block, list) and block and isinstance(block[0], ast.stmt)):
                continue
            new = []
            for st in block:
                v = st.value if isinstance(st, ast.AugAssign) and isinstance(st.op, ast.Add) else None
                if isinstance(v, ast.Call) and isinstance(v.func, ast.Attribute) and v.func.attr == 'join' \
                        and isinstance(v.func.value, ast.Constant) and v.func.value.value == '' \
                        and len(v.args) == 1 and isinstance(v.args[0], (ast.GeneratorExp, ast.ListComp)) \
                        and isinstance(st.target, ast.Name):
                    comp = v.args[0]
                    inner = [ast.copy_location(ast.AugAssign(target=st.target, op=ast.Add(), value=comp.elt), st)]
                    for gen in reversed(comp.generators):
                        if gen.is_async:
                            inner = None
                            break
                        for cond in reversed(gen.ifs):
                            inner = [ast.copy_location(ast.If(test=cond, body=inner, orelse=[]), st)]
                        inner = [ast.copy_location(ast.For(target=gen.target, iter=gen.iter, body=inner,
                                                           orelse=[]), st)]
                    if inner is not None:
                        for node in ast.walk(inner[0]):
                            if isinstance(node, ast.Name) and isinstance(node.ctx, ast.Store):
                                pass
                        # comprehension targets are Store already
                        new.extend(inner)
                        count += 1
                        continue
                new.append(st)
            setattr(holder, field, new)
    return count


def prune_constant_tests(tree):
    """Normalisation: ``if True: A else: B`` is A, ``x if False else y`` is y
    (literal tests appear when a helper with a flag parameter is expanded at a
    call that passes a literal)."""
    count = 0

    def truth(e):
        if isinstance(e, ast.Constant) and isinstance(e.value, (bool, int, float, str, type(None))):
            return bool(e.value)
        if isinstance(e, ast.UnaryOp) and isinstance(e.op, ast.Not):
            t = truth(e.operand)
            return None if t is None else not t
        return None
    changed = True
    while changed:
        changed = False
        for holder in ast.walk(tree):
            for field in ('body', 'orelse', 'finalbody'):
                block = getattr(holder, field, None)
                if not (isinstance(block, list) and block and isinstance(block[0], ast.stmt)):
                    continue
                new = []
                for st in block:
                    t = truth(st.test) if isinstance(st, ast.If) else None
                    if t is None:
                        new.append(st)
                        continue
                    new.extend(st.body if t else st.orelse)
                    count += 1
                    changed = True
                if not new and field == 'body':
                    new = [ast.copy_location(ast.Pass(), block[0])]
                setattr(holder, field, new)
        for node in ast.walk(tree):
            if isinstance(node, ast.IfExp):
                t = truth(node.test)
                if t is not None:
                    rep = node.body if t else node.orelse
                    node.__class__ = rep.__class__
                    node.__dict__.clear()
                    node.__dict__.update(rep.__dict__)
                    count += 1
                    changed = True
    return count


def flatten_private_bases(tree, elsewhere=''):
    """Normalisation: a private intermediate base class of the module
    (``class _Common(Base)`` with ``class A(_Common)``, ``class B(_Common)``)
    that only serves to share members is read as if every subclass defined
    those members itself and derived from ``Base`` directly - what the code
    looked like before the members were pulled up.  Not when the private class
    uses ``super()`` or is used for anything but deriving from it."""
    import copy
    count = 0
    for _round in range(3):
        classes = {st.name: st for st in tree.body if isinstance(st, ast.ClassDef)}
        done = False
        for pname, pcls in list(classes.items()):
            private = pname.startswith('_') and not pname.startswith('__')
            # a class without a leading underscore counts as well when nothing outside
            # this module mentions it and it has no constructor or class-level data of
            # its own: a mixin / intermediate class that only carries shared methods
            import re as _re
            shared_only = not _re.search(r'\b%s\b' % _re.escape(pname), elsewhere) and all(
                isinstance(m, ast.FunctionDef) and not m.name.startswith('__')
                or isinstance(m, ast.Pass) or (isinstance(m, ast.Expr) and isinstance(m.value, ast.Constant))
                for m in pcls.body)
            if not (private or shared_only):
                continue
            subs = [c for c in classes.values() if any(isinstance(b, ast.Name) and b.id == pname for b in c.bases)]
            if not subs:
                continue
            other_refs = [n for n in ast.walk(tree) if isinstance(n, ast.Name) and n.id == pname
                          and not any(n is b for c in subs for b in c.bases)]
            uses_super = any(isinstance(n, ast.Call) and isinstance(n.func, ast.Name) and n.func.id == 'super'
                             for n in ast.walk(pcls))
            if other_refs or uses_super or pcls.decorator_list or pcls.keywords:
                continue
            members = [m for m in pcls.body if not (isinstance(m, ast.Expr) and isinstance(m.value, ast.Constant))
                       and not isinstance(m, ast.Pass)]
            if not all(isinstance(m, (ast.FunctionDef, ast.Assign, ast.AnnAssign)) for m in members):
                continue
            for c in subs:
                own = {m.name for m in c.body if isinstance(m, ast.FunctionDef)} | {
                    t.id for m in c.body if isinstance(m, ast.Assign) for t in m.targets if isinstance(t, ast.Name)} | {
                    m.target.id for m in c.body if isinstance(m, ast.AnnAssign) and isinstance(m.target, ast.Name)}
                add = []
                for m in members:
                    nm = m.name if isinstance(m, ast.FunctionDef) else (
                        m.targets[0].id if isinstance(m, ast.Assign) and isinstance(m.targets[0], ast.Name)
                        else getattr(getattr(m, 'target', None), 'id', None))
                    if nm is None or nm in own:
                        continue
                    add.append(copy.deepcopy(m))
                c.body.extend(add)
                new_bases = []
                for b in c.bases:
                    if isinstance(b, ast.Name) and b.id == pname:
                        new_bases.extend(copy.deepcopy(pcls.bases))
                    else:
                        new_bases.append(b)
                c.bases = new_bases
            tree.body = [st for st in tree.body if st is not pcls]
            count += 1
            done = True
            break
        if not done:
            break
    if count:
        ast.fix_missing_locations(tree)
    return count


def split_tuple_locals(tree):
    """Normalisation (scalar replacement): locals that only ever hold tuples of
    one fixed length - stored as displays ``t = (a, b, c)`` or copied from one
    another ``best = t``, read as ``t[0]`` or unpacked ``x, y, z = t`` - are
    read as that many separate locals ``t_0, t_1, t_2``.  A running optimum kept
    in one tuple is then the same program as one kept in three variables."""
    from .inline import INTRODUCED
    count = 0
    for fn in ast.walk(tree):
        if not isinstance(fn, (ast.FunctionDef, ast.AsyncFunctionDef)):
            continue
        params = {a.arg for a in fn.args.args + fn.args.kwonlyargs + fn.args.posonlyargs}
        nested = {m.id for n in ast.walk(fn) if n is not fn and isinstance(
            n, (ast.FunctionDef, ast.Lambda, ast.ListComp, ast.SetComp, ast.DictComp, ast.GeneratorExp))
            for m in ast.walk(n) if isinstance(m, ast.Name)}
        # parent links local to this pass
        parent = {}
        for n in ast.walk(fn):
            for c in ast.iter_child_nodes(n):
                parent[id(c)] = n
        names = {n.id for n in ast.walk(fn) if isinstance(n, ast.Name) and isinstance(n.ctx, ast.Store)}
        names -= params | nested
        arity = {}
        bad = set()

        def stmt_of(n):
            while not isinstance(n, ast.stmt):
                n = parent[id(n)]
            return n
        for n in ast.walk(fn):
            if not (isinstance(n, ast.Name) and n.id in names):
                continue
            par = parent[id(n)]
            if isinstance(n.ctx, ast.Store):
                ok = isinstance(par, (ast.Assign, ast.AnnAssign)) and (
                    par.targets == [n] if isinstance(par, ast.Assign) else par.target is n) \
                    and par.value is not None
                if ok and isinstance(par.value, ast.Tuple) and not any(
                        isinstance(e, ast.Starred) for e in par.value.elts):
                    k = len(par.value.elts)
                    if arity.setdefault(n.id, k) != k or any(
                            isinstance(m, ast.Name) and m.id == n.id for m in ast.walk(par.value)):
                        bad.add(n.id)
                elif ok and isinstance(par.value, ast.Name) and par.value.id in names:
                    pass            # copy: checked below
                else:
                    bad.add(n.id)
            else:
                if isinstance(par, ast.Subscript) and par.value is n and isinstance(par.slice, ast.Constant) \
                        and type(par.slice.value) is int and isinstance(par.ctx, ast.Load):
                    continue
                if isinstance(par, ast.Assign) and par.value is n and len(par.targets) == 1 and (
                        isinstance(par.targets[0], ast.Name) and par.targets[0].id in names
                        or isinstance(par.targets[0], (ast.Tuple, ast.List)) and all(
                            isinstance(e, ast.Name) for e in par.targets[0].elts)):
                    continue
                bad.add(n.id)
        # propagate arity through copies, drop inconsistent ones
        changed = True
        while changed:
            changed = False
            for n in ast.walk(fn):
                if isinstance(n, ast.Assign) and len(n.targets) == 1 and isinstance(n.targets[0], ast.Name) \
                        and isinstance(n.value, ast.Name) and n.targets[0].id in names and n.value.id in names:
                    a, b = n.targets[0].id, n.value.id
                    if a in bad or b in bad:
                        if not (a in bad and b in bad):
                            bad |= {a, b}
                            changed = True
                        continue
                    ka, kb = arity.get(a), arity.get(b)
                    if ka is None and kb is not None:
                        arity[a] = kb
                        changed = True
                    elif kb is None and ka is not None:
                        arity[b] = ka
                        changed = True
                    elif ka is not None and kb is not None and ka != kb:
                        bad |= {a, b}
                        changed = True
        cand = {nm for nm in names if nm in arity and nm not in bad}
        # subscripts in range, unpack arities right
        for n in ast.walk(fn):
            if isinstance(n, ast.Subscript) and isinstance(n.value, ast.Name) and n.value.id in cand \
                    and isinstance(n.slice, ast.Constant) and not (0 <= n.slice.value < arity[n.value.id]):
                cand.discard(n.value.id)
            if isinstance(n, ast.Assign) and isinstance(n.value, ast.Name) and n.value.id in cand \
                    and isinstance(n.targets[0], (ast.Tuple, ast.List)) \
                    and len(n.targets[0].elts) != arity[n.value.id]:
                cand.discard(n.value.id)
        # a copy partner that fell out takes the other with it
        for n in ast.walk(fn):
            if isinstance(n, ast.Assign) and len(n.targets) == 1 and isinstance(n.targets[0], ast.Name) \
                    and isinstance(n.value, ast.Name) and ((n.targets[0].id in cand) != (n.value.id in cand)) \
                    and (n.targets[0].id in names and n.value.id in names):
                cand.discard(n.targets[0].id)
                cand.discard(n.value.id)
        if not cand:
            continue

        def comp(nm, i, ctx, at):
            INTRODUCED.add('%s_%d' % (nm, i))
            return ast.copy_location(ast.Name(id='%s_%d' % (nm, i), ctx=ctx), at)
        for holder in ast.walk(fn):
            for field in ('body', 'orelse', 'finalbody'):
                block = getattr(holder, field, None)
                if not (isinstance(block, list) and block and isinstance(block[0], ast.stmt)):
                    continue
                new = []
                for st in block:
                    tgt = st.targets[0] if isinstance(st, ast.Assign) and len(st.targets) == 1 else (
                        st.target if isinstance(st, ast.AnnAssign) else None)
                    val = getattr(st, 'value', None)
                    if isinstance(tgt, ast.Name) and tgt.id in cand and isinstance(val, ast.Tuple):
                        for i, e in enumerate(val.elts):
                            new.append(ast.copy_location(ast.Assign(targets=[comp(tgt.id, i, ast.Store(), st)],
                                                                    value=e), st))
                        continue
                    if isinstance(tgt, ast.Name) and tgt.id in cand and isinstance(val, ast.Name) and val.id in cand:
                        for i in range(arity[tgt.id]):
                            new.append(ast.copy_location(ast.Assign(
                                targets=[comp(tgt.id, i, ast.Store(), st)], value=comp(val.id, i, ast.Load(), st)), st))
                        continue
                    if isinstance(tgt, (ast.Tuple, ast.List)) and isinstance(val, ast.Name) and val.id in cand:
                        for i, e in enumerate(tgt.elts):
                            new.append(ast.copy_location(ast.Assign(targets=[e], value=comp(val.id, i, ast.Load(), st)), st))
                        continue
                    new.append(st)
                setattr(holder, field, new)
        for n in ast.walk(fn):
            if isinstance(n, ast.Subscript) and isinstance(n.value, ast.Name) and n.value.id in cand \
                    and isinstance(n.slice, ast.Constant):
                rep = comp(n.value.id, n.slice.value, ast.Load(), n)
                n.__class__ = ast.Name
                n.__dict__.clear()
                n.__dict__.update(rep.__dict__)
        count += len(cand)
    if count:
        ast.fix_missing_locations(tree)
    return count


def fold_target_unpacking(tree):
    """Normalisation: ``for key, v in d.items(): ...; x, y, z = key; ...`` with
    ``key`` used nowhere else is read as ``for (x, y, z), v in d.items()``: the
    components are named in the loop target.  (The unpacking must come before
    any use of x, y, z in the body.)"""
    count = 0
    for fn in ast.walk(tree):
        if not isinstance(fn, (ast.FunctionDef, ast.AsyncFunctionDef)):
            continue
        for lp in ast.walk(fn):
            if not isinstance(lp, ast.For):
                continue
            slots = []
            if isinstance(lp.target, (ast.Tuple, ast.List)):
                slots = [(lp.target.elts, i) for i, e in enumerate(lp.target.elts) if isinstance(e, ast.Name)]
            for elts, i in slots:
                name = elts[i].id
                uses = [n for n in ast.walk(fn) if isinstance(n, ast.Name) and n.id == name]
                if len(uses) != 2:
                    continue
                for k, st in enumerate(lp.body):
                    if isinstance(st, ast.Assign) and len(st.targets) == 1 \
                            and isinstance(st.targets[0], (ast.Tuple, ast.List)) \
                            and isinstance(st.value, ast.Name) and st.value.id == name \
                            and all(isinstance(e, ast.Name) for e in st.targets[0].elts):
                        comps = {e.id for e in st.targets[0].elts}
                        earlier = any(isinstance(n, ast.Name) and n.id in comps
                                      for b in lp.body[:k] for n in ast.walk(b))
                        elsewhere = sum(1 for n in ast.walk(fn) if isinstance(n, ast.Name) and n.id in comps
                                        and isinstance(n.ctx, ast.Store)) != len(comps)
                        if earlier or elsewhere:
                            break
                        elts[i] = ast.copy_location(ast.Tuple(elts=list(st.targets[0].elts), ctx=ast.Store()),
                                                    elts[i])
                        del lp.body[k]
                        if not lp.body:
                            lp.body.append(ast.copy_location(ast.Pass(), st))
                        count += 1
                        break
    return count


def unroll_constant_comprehensions(tree):
    """Normalisation: a list comprehension over ``range(n)`` with a small
    constant n and no condition - ``[f(xs[i]) for i in range(3)]`` - is read
    as the list display it abbreviates, ``[f(xs[0]), f(xs[1]), f(xs[2])]``
    (after helper expansion n is often the constant argument of a call)."""
    import copy
    count = 0

    class Sub(ast.NodeTransformer):
        def __init__(self, name, value):
            self.name, self.value = name, value

        def visit_Name(self, node):
            if node.id == self.name and isinstance(node.ctx, ast.Load):
                return ast.copy_location(ast.Constant(value=self.value), node)
            return node
    for node in ast.walk(tree):
        if not (isinstance(node, ast.ListComp) and len(node.generators) == 1):
            continue
        g = node.generators[0]
        if g.ifs or g.is_async or not isinstance(g.target, ast.Name):
            continue
        it = g.iter
        if not (isinstance(it, ast.Call) and isinstance(it.func, ast.Name) and it.func.id == 'range'
                and len(it.args) == 1 and not it.keywords and isinstance(it.args[0], ast.Constant)
                and type(it.args[0].value) is int and 0 <= it.args[0].value <= 6):
            continue
        if any(isinstance(n, ast.Name) and n.id == g.target.id and isinstance(n.ctx, ast.Store)
               for n in ast.walk(node.elt)) or \
                any(isinstance(n, (ast.ListComp, ast.GeneratorExp, ast.SetComp, ast.DictComp, ast.Lambda))
                    for n in ast.walk(node.elt)):
            continue
        elts = [Sub(g.target.id, i).visit(copy.deepcopy(node.elt)) for i in range(it.args[0].value)]
        rep = ast.copy_location(ast.List(elts=elts, ctx=ast.Load()), node)
        node.__class__ = ast.List
        node.__dict__.clear()
        node.__dict__.update(rep.__dict__)
        count += 1
    if count:
        ast.fix_missing_locations(tree)
    return count


def sink_selected_callees(tree):
    """Normalisation: locals that an if/elif/else chain binds to one of several
    existing objects (a function, a parameter), used by the statements that
    follow -

        if a: f = g                 if p: hi, lo = x, y
        elif b: f = h               else: hi, lo = y, x
        else: f = k                 hi.items.append(make(lo))
        f(x, y)

    - are read with those statements written in every branch, the chosen
    object in place of the local (``g(x, y)`` ...; ``x.items.append(make(y))``
    ...).  That is the same program when the locals have no other use and
    nothing in the statements stores them or what they stand for.  Callee
    resolution, and rules stated on "the calls of g" or "what is appended to
    x.items", then see one form.  At most six statements are duplicated."""
    import copy
    count = 0

    def leaves(ifst):
        """bodies of all leaf branches of a complete if/elif/else chain, or None"""
        out = [ifst.body]
        if not ifst.orelse:
            return None
        if len(ifst.orelse) == 1 and isinstance(ifst.orelse[0], ast.If):
            rest = leaves(ifst.orelse[0])
            if rest is None:
                return None
            return out + rest
        return out + [ifst.orelse]

    def dotted_pure(e):
        while isinstance(e, ast.Attribute):
            e = e.value
        return isinstance(e, ast.Name)

    class Sub(ast.NodeTransformer):
        def __init__(self, mapping):
            self.mapping = mapping

        def visit_Name(self, node):
            if node.id in self.mapping and isinstance(node.ctx, ast.Load):
                return ast.copy_location(copy.deepcopy(self.mapping[node.id]), node)
            return node

    for fn in ast.walk(tree):
        if not isinstance(fn, (ast.FunctionDef, ast.AsyncFunctionDef)):
            continue
        for holder in ast.walk(fn):
            for field in ('body', 'orelse', 'finalbody'):
                block = getattr(holder, field, None)
                if not (isinstance(block, list) and block and isinstance(block[0], ast.stmt)):
                    continue
                i = 0
                while i + 1 < len(block):
                    st = block[i]
                    i += 1
                    if not isinstance(st, ast.If):
                        continue
                    lv = leaves(st)
                    if lv is None:
                        continue
                    # the trailing alias bindings of every leaf
                    maps = []
                    for b in lv:
                        m = {}
                        for s_ in reversed(b):
                            if isinstance(s_, ast.Assign) and len(s_.targets) == 1 \
                                    and isinstance(s_.targets[0], ast.Name) \
                                    and (isinstance(s_.value, (ast.Name, ast.Attribute)) and dotted_pure(s_.value)
                                         or isinstance(s_.value, ast.Constant)) \
                                    and s_.targets[0].id not in m:
                                m[s_.targets[0].id] = s_.value
                            else:
                                break
                        maps.append(m)
                    if not maps[0] or any(set(m) != set(maps[0]) for m in maps):
                        continue
                    # a selection of flags only (`found = True` / `found = False`) stays a flag
                    if all(isinstance(v, ast.Constant) for m in maps for v in m.values()):
                        continue
                    names = set(maps[0])
                    n_alias = len(names)
                    # a later binding in the same leaf must not read an earlier one
                    if any(isinstance(x, ast.Name) and x.id in names
                           for m in maps for v in m.values() for x in ast.walk(v)):
                        continue
                    roots = {x.id for m in maps for v in m.values() for x in ast.walk(v)
                             if isinstance(x, ast.Name)}
                    tail = block[i:]
                    # the uses of the locals: in which following statements?
                    all_uses = [n for n in ast.walk(fn) if isinstance(n, ast.Name) and n.id in names]
                    used_in = [k for k, t_ in enumerate(tail)
                               if any(isinstance(n, ast.Name) and n.id in names for n in ast.walk(t_))]
                    if not used_in:
                        continue
                    span = tail[:used_in[-1] + 1]
                    in_span = sum(1 for t_ in span for n in ast.walk(t_)
                                  if isinstance(n, ast.Name) and n.id in names)
                    if len(all_uses) != in_span + n_alias * len(lv) or len(span) > 6:
                        continue
                    stored = {n.id for t_ in span for n in ast.walk(t_)
                              if isinstance(n, ast.Name) and isinstance(n.ctx, (ast.Store, ast.Del))}
                    if stored & (names | roots):
                        continue
                    if any(isinstance(n, (ast.Break, ast.Continue, ast.Return, ast.Yield, ast.YieldFrom))
                           for t_ in span[:-1] for n in ast.walk(t_)):
                        continue
                    if any(isinstance(n, (ast.FunctionDef, ast.Lambda, ast.ClassDef))
                           for t_ in span for n in ast.walk(t_)):
                        continue
                    for b, m in zip(lv, maps):
                        del b[len(b) - n_alias:]
                        b.extend(Sub(m).visit(copy.deepcopy(t_)) for t_ in span)
                    del block[i:i + len(span)]
                    count += 1
    if count:
        ast.fix_missing_locations(tree)
    return count


def unroll_callee_loops(tree):
    """Normalisation: a loop over a short literal sequence of tuples whose
    target is *called* in the body - ``for make, angle in ((rot_z, t), (rot_y,
    -b)): v = make(angle) @ v`` - or is the object the body changes, is read
    unrolled, each element substituted, so that the calls can be resolved and
    the writes attributed.  Other literal loops stay loops."""
    import copy
    count = 0
    # module-level tables: a name bound once, at module level, to a literal tuple/list of rows
    tables = {}
    stores = {}
    for n in ast.walk(tree):
        if isinstance(n, ast.Name) and isinstance(n.ctx, (ast.Store, ast.Del)):
            stores[n.id] = stores.get(n.id, 0) + 1
    for st in getattr(tree, 'body', []):
        tgt = st.targets[0] if isinstance(st, ast.Assign) and len(st.targets) == 1 else (
            st.target if isinstance(st, ast.AnnAssign) else None)
        val = getattr(st, 'value', None)
        if isinstance(tgt, ast.Name) and stores.get(tgt.id) == 1 and isinstance(val, (ast.Tuple, ast.List)) \
                and val.elts and all(isinstance(e, (ast.Tuple, ast.List)) for e in val.elts) \
                and not any(isinstance(x, (ast.Call, ast.Lambda, ast.ListComp)) for x in ast.walk(val)):
            tables[tgt.id] = val

    class Sub(ast.NodeTransformer):
        def __init__(self, mapping):
            self.mapping = mapping

        def visit_Name(self, node):
            if node.id in self.mapping and isinstance(node.ctx, ast.Load):
                return copy.deepcopy(self.mapping[node.id])
            return node

        def visit_Call(self, node):
            self.generic_visit(node)
            # getattr(obj, 'name') with a literal name is obj.name; *(a, b) are the arguments a, b
            if isinstance(node.func, ast.Call) and isinstance(node.func.func, ast.Name) \
                    and node.func.func.id == 'getattr' and len(node.func.args) == 2 \
                    and isinstance(node.func.args[1], ast.Constant) and isinstance(node.func.args[1].value, str) \
                    and node.func.args[1].value.isidentifier():
                node.func = ast.copy_location(ast.Attribute(value=node.func.args[0], attr=node.func.args[1].value,
                                                            ctx=ast.Load()), node.func)
            args = []
            for a in node.args:
                if isinstance(a, ast.Starred) and isinstance(a.value, (ast.Tuple, ast.List)):
                    args.extend(a.value.elts)
                else:
                    args.append(a)
            node.args = args
            return node
    for holder in ast.walk(tree):
        for field in ('body', 'orelse', 'finalbody'):
            block = getattr(holder, field, None)
            if not (isinstance(block, list) and block and isinstance(block[0], ast.stmt)):
                continue
            new = []
            for st in block:
                # `for f in (g, h, k): r = f(x); if r: return r` - a single name over a short
                # literal of plain names that the body calls: the calls can be resolved
                if isinstance(st, ast.For) and not st.orelse and isinstance(st.target, ast.Name) \
                        and isinstance(st.iter, (ast.Tuple, ast.List)) and 2 <= len(st.iter.elts) <= 6 \
                        and all(isinstance(e, (ast.Name, ast.Attribute)) for e in st.iter.elts) \
                        and any(isinstance(n, ast.Call) and isinstance(n.func, ast.Name) and n.func.id == st.target.id
                                for b in st.body for n in ast.walk(b)) \
                        and not any(isinstance(n, (ast.Break, ast.Continue, ast.Yield, ast.Lambda, ast.FunctionDef))
                                    for b in st.body for n in ast.walk(b)) \
                        and not any(isinstance(n, ast.Name) and n.id == st.target.id and isinstance(n.ctx, ast.Store)
                                    for b in st.body for n in ast.walk(b)) \
                        and sum(1 for b in st.body for _n in ast.walk(b)) <= 40:
                    for e in st.iter.elts:
                        for b in st.body:
                            new.append(Sub({st.target.id: e}).visit(copy.deepcopy(b)))
                    count += 1
                    continue
                # `for m in (f(a), g(b), h(c)): v = m @ v` - a single name over a short
                # literal of expressions, the body free of calls and storing nothing
                # the expressions read: each element is read where it is used
                if isinstance(st, ast.For) and not st.orelse and isinstance(st.target, ast.Name) \
                        and isinstance(st.iter, (ast.Tuple, ast.List)) and 2 <= len(st.iter.elts) <= 4 \
                        and not any(isinstance(e, ast.Starred) for e in st.iter.elts) \
                        and any(isinstance(n, ast.Call) for e in st.iter.elts for n in ast.walk(e)) \
                        and not any(isinstance(n, (ast.Call, ast.Break, ast.Continue, ast.Return, ast.Yield,
                                                   ast.Lambda, ast.FunctionDef))
                                    for b in st.body for n in ast.walk(b)):
                    stored_ = {n.id for b in st.body for n in ast.walk(b)
                               if isinstance(n, ast.Name) and isinstance(n.ctx, ast.Store)}
                    read_ = {n.id for e in st.iter.elts for n in ast.walk(e) if isinstance(n, ast.Name)}
                    if not (stored_ & read_) and st.target.id not in stored_:
                        for e in st.iter.elts:
                            for b in st.body:
                                new.append(Sub({st.target.id: e}).visit(copy.deepcopy(b)))
                        count += 1
                        continue
                # a loop over a module-level literal table of rows is a loop over that literal
                if isinstance(st, ast.For) and isinstance(st.iter, ast.Name) and st.iter.id in tables \
                        and isinstance(st.target, (ast.Tuple, ast.List)):
                    st = copy.copy(st)
                    st.iter = copy.deepcopy(tables[st.iter.id])
                    big_ok = True
                else:
                    big_ok = False
                ok = isinstance(st, ast.For) and not st.orelse \
                    and isinstance(st.target, (ast.Tuple, ast.List)) \
                    and all(isinstance(t, ast.Name) for t in st.target.elts) \
                    and isinstance(st.iter, (ast.Tuple, ast.List)) \
                    and 1 <= len(st.iter.elts) <= (12 if big_ok else 4) \
                    and all(isinstance(e, (ast.Tuple, ast.List)) and len(e.elts) == len(st.target.elts)
                            for e in st.iter.elts)
                if ok:
                    names = [t.id for t in st.target.elts]
                    called = any(isinstance(n, ast.Call) and isinstance(n.func, ast.Name) and n.func.id in names
                                 for b in st.body for n in ast.walk(b))
                    # ... or names the method that is called: getattr(obj, target)(...)
                    called = called or any(
                        isinstance(n, ast.Call) and isinstance(n.func, ast.Call) and isinstance(n.func.func, ast.Name)
                        and n.func.func.id == 'getattr' and len(n.func.args) == 2
                        and isinstance(n.func.args[1], ast.Name) and n.func.args[1].id in names
                        for b in st.body for n in ast.walk(b))
                    # ... or is the object that the body changes: `for a, b in ((x, y), (y, x)):
                    # a.items.append(f(b))` says what happens to x and to y
                    def root(e):
                        while isinstance(e, (ast.Attribute, ast.Subscript)):
                            e = e.value
                        return e.id if isinstance(e, ast.Name) else None
                    for b in st.body:
                        for n in ast.walk(b):
                            if isinstance(n, ast.Call) and isinstance(n.func, ast.Attribute) \
                                    and n.func.attr in ('append', 'extend', 'insert', 'remove', 'add', 'update') \
                                    and root(n.func.value) in names:
                                called = True
                            if isinstance(n, (ast.Attribute, ast.Subscript)) and isinstance(n.ctx, ast.Store) \
                                    and root(n) in names:
                                called = True
                    stored = any(isinstance(n, ast.Name) and n.id in names and isinstance(n.ctx, ast.Store)
                                 for b in st.body for n in ast.walk(b))
                    jumps = any(isinstance(n, (ast.Break, ast.Continue)) for b in st.body for n in ast.walk(b))
                    pure = all(not any(isinstance(x, (ast.Call, ast.Await)) for x in ast.walk(v))
                               for e in st.iter.elts for v in e.elts)
                    ok = called and not stored and not jumps and pure
                if not ok:
                    new.append(st)
                    continue
                for e in st.iter.elts:
                    mapping = dict(zip(names, e.elts))
                    for b in st.body:
                        new.append(Sub(mapping).visit(copy.deepcopy(b)))
                count += 1
            setattr(holder, field, new)
    if count:
        ast.fix_missing_locations(tree)
    return count


_PURE_CALLS = {'len', 'abs', 'int', 'float', 'str', 'min', 'max', 'bool', 'tuple', 'ord', 'chr'}
_PURE_METHODS = {'strip', 'lstrip', 'rstrip', 'lower', 'upper', 'startswith', 'endswith', 'isdigit',
                 'isalpha', 'keys', 'values', 'items', 'get', 'count', 'index', 'format'}


def _pure_value(node):
    for n in ast.walk(node):
        if isinstance(n, ast.Call):
            f = n.func
            if isinstance(f, ast.Name) and f.id in _PURE_CALLS:
                continue
            if isinstance(f, ast.Attribute) and f.attr in _PURE_METHODS:
                continue
            return False
        if isinstance(n, (ast.Lambda, ast.ListComp, ast.SetComp, ast.DictComp, ast.GeneratorExp,
                          ast.Await, ast.Yield, ast.YieldFrom, ast.NamedExpr, ast.Starred,
                          ast.List, ast.Dict, ast.Set)):
            return False
    return True


def inline_pure_temporaries(tree):
    """Normalisation: a local bound once to a small side-effect-free expression
    (``is_atom = tag == 'ATOM  '``, ``name = line[12:16].strip()``,
    ``atom = group.atom``) whose inputs are not re-bound while it is in use is
    read as that expression.  Hoisting a repeated test or look-up into a local
    is then invisible to the rules.  Returns the number inlined."""
    import copy
    from .inline import INTRODUCED as introduced
    count = 0
    for fn in [n for n in ast.walk(tree) if isinstance(n, (ast.FunctionDef, ast.AsyncFunctionDef))]:
        stores, captured = {}, set()
        params = {a.arg for a in fn.args.args + fn.args.kwonlyargs + fn.args.posonlyargs}
        for n in ast.walk(fn):
            if isinstance(n, ast.Name) and isinstance(n.ctx, (ast.Store, ast.Del)):
                stores[n.id] = stores.get(n.id, 0) + 1
            if n is not fn and isinstance(n, (ast.FunctionDef, ast.AsyncFunctionDef, ast.Lambda, ast.ClassDef,
                                               ast.ListComp, ast.SetComp, ast.DictComp, ast.GeneratorExp)):
                captured |= {m.id for m in ast.walk(n) if isinstance(m, ast.Name)}
            if isinstance(n, (ast.Global, ast.Nonlocal)):
                captured |= set(n.names)
        loop_targets = {n.id for lp in ast.walk(fn) if isinstance(lp, ast.For)
                        for n in ast.walk(lp.target) if isinstance(n, ast.Name)}

        def field_alias(v):
            # `tag = line[0:6]`, `name = line[12:16].strip()`: named fields of the
            # record a loop runs over are what record-level rules are stated on
            while isinstance(v, ast.Call) and isinstance(v.func, ast.Attribute) and not v.args:
                v = v.func.value
            return isinstance(v, ast.Subscript) and isinstance(v.value, ast.Name) \
                and v.value.id in loop_targets
        changed = True
        rounds = 0
        while changed and rounds < 6:
            changed = False
            rounds += 1
            for holder in ast.walk(fn):
                for field in ('body', 'orelse', 'finalbody'):
                    block = getattr(holder, field, None)
                    if not (isinstance(block, list) and block and isinstance(block[0], ast.stmt)):
                        continue
                    for i, st in enumerate(block):
                        if not (isinstance(st, ast.Assign) and len(st.targets) == 1
                                and isinstance(st.targets[0], ast.Name)):
                            continue
                        name = st.targets[0].id
                        if stores.get(name) != 1 or name in params or name in captured:
                            continue
                        val = st.value
                        if isinstance(val, ast.Name) and (name in introduced or val.id in introduced):
                            pass        # a copy that exists only because a helper was expanded
                        elif isinstance(val, (ast.Constant, ast.Name)) or not _pure_value(val) or field_alias(val):
                            continue
                        size = sum(1 for _ in ast.walk(val))
                        rest = block[i + 1:]
                        loads = [n for r in rest for n in ast.walk(r) if isinstance(n, ast.Name)
                                 and n.id == name and isinstance(n.ctx, ast.Load)]
                        all_loads = [n for n in ast.walk(fn) if isinstance(n, ast.Name) and n.id == name
                                     and isinstance(n.ctx, ast.Load)]
                        if not loads or len(loads) != len(all_loads) or size > 14 or size * len(loads) > 40:
                            continue
                        reads = {n.id for n in ast.walk(val) if isinstance(n, ast.Name)}
                        attrs = {n.attr for n in ast.walk(val) if isinstance(n, ast.Attribute)}
                        clobbered = False
                        for r in rest:
                            for n in ast.walk(r):
                                if isinstance(n, ast.Name) and isinstance(n.ctx, (ast.Store, ast.Del)) \
                                        and n.id in reads:
                                    clobbered = True
                                if isinstance(n, ast.Attribute) and isinstance(n.ctx, (ast.Store, ast.Del)) \
                                        and n.attr in attrs:
                                    clobbered = True
                                if isinstance(n, ast.Subscript) and isinstance(n.ctx, (ast.Store, ast.Del)) \
                                        and any(isinstance(x, ast.Name) and x.id in reads for x in ast.walk(n.value)):
                                    clobbered = True
                        # inside a loop the block runs again: the inputs must not be
                        # re-bound anywhere in the loop unless they are bound before the temporary
                        if clobbered:
                            continue
                        for u in loads:
                            rep = copy.deepcopy(val)
                            for sub in ast.walk(rep):
                                ast.copy_location(sub, u)
                            u.__class__ = rep.__class__
                            u.__dict__.clear()
                            u.__dict__.update(rep.__dict__)
                        del block[i]
                        if not block:
                            block.append(ast.copy_location(ast.Pass(), st))
                        stores[name] = 0
                        count += 1
                        changed = True
                        break
                    if changed:
                        break
                if changed:
                    break
    return count


def orient_comparisons(tree):
    """Normalisation: every single ordering comparison is read in its `<` form
    (``a > b`` as ``b < a``, ``a >= b`` as ``b <= a``).  Rules about thresholds
    and cut-offs are stated on that form, so they do not depend on which way
    round a comparison happens to be written.  Returns the number rewritten."""
    count = 0
    for node in ast.walk(tree):
        if isinstance(node, ast.Compare) and len(node.ops) == 1 \
                and isinstance(node.ops[0], (ast.Gt, ast.GtE)):
            node.left, node.comparators[0] = node.comparators[0], node.left
            node.ops = [ast.Lt() if isinstance(node.ops[0], ast.Gt) else ast.LtE()]
            count += 1
    return count


def positive_branches(tree):
    """Normalisation: a two-way branch is read with its positive test first.
    ``if not T: A else: B`` is read as ``if T: B else: A``; ``!=``, ``not in``
    and ``is not`` tests with an else branch likewise as ``==``, ``in``, ``is``
    with the branches exchanged (same for conditional expressions).  elif
    chains (an else branch that is a single ``if``) are left as written.
    Rules about "the true edge" and "the false edge" are stated on that form.
    Returns the number of branches exchanged."""
    opp = {ast.NotEq: ast.Eq, ast.NotIn: ast.In, ast.IsNot: ast.Is}
    count = 0
    for node in ast.walk(tree):
        if isinstance(node, ast.If):
            if not node.orelse or (len(node.orelse) == 1 and isinstance(node.orelse[0], ast.If)):
                continue
        elif not isinstance(node, ast.IfExp):
            continue
        swapped = True
        while swapped:
            swapped = False
            test = node.test
            if isinstance(test, ast.UnaryOp) and isinstance(test.op, ast.Not):
                node.test = test.operand
                swapped = True
            elif isinstance(test, ast.Compare) and len(test.ops) == 1 and type(test.ops[0]) in opp:
                test.ops = [opp[type(test.ops[0])]()]
                swapped = True
            if swapped:
                node.body, node.orelse = node.orelse, node.body
                count += 1
    return count


def _negated(test):
    opp = {ast.Eq: ast.NotEq, ast.NotEq: ast.Eq, ast.In: ast.NotIn, ast.NotIn: ast.In,
           ast.Is: ast.IsNot, ast.IsNot: ast.Is}
    if isinstance(test, ast.Compare) and len(test.ops) == 1 and type(test.ops[0]) in opp:
        return ast.copy_location(ast.Compare(left=test.left, ops=[opp[type(test.ops[0])]()],
                                             comparators=test.comparators), test)
    if isinstance(test, ast.UnaryOp) and isinstance(test.op, ast.Not):
        return test.operand
    return ast.copy_location(ast.UnaryOp(op=ast.Not(), operand=test), test)


def flatten_guards(tree):
    """Normalisation: nesting that only expresses an early exit is read as the
    early exit.  (a) ``if T: <block ending in return/raise/continue/break>
    else: <rest>`` is read as the ``if`` followed by ``<rest>`` (if only the
    else block ends that way, with the test negated - except inside elif
    chains, which stay as written); (b) a loop body whose
    last statement is ``if T: <block>`` without else is read as ``if not T:
    continue`` followed by ``<block>``.  Filters, latches and guards are then
    top-level statements of their block however the author nested them.
    Returns the number of rewrites."""
    count = 0

    def exits(stmts):
        return bool(stmts) and isinstance(stmts[-1], (ast.Return, ast.Raise, ast.Continue, ast.Break))

    def size(stmts):
        return sum(1 for st in stmts for _ in ast.walk(st))

    def flat(stmts, in_loop, in_chain):
        nonlocal count
        out = []
        work = list(stmts)
        while work:
            st = work.pop(0)
            if isinstance(st, ast.If) and st.orelse:
                chain = in_chain or (len(st.orelse) == 1 and isinstance(st.orelse[0], ast.If))
                if exits(st.body) and exits(st.orelse) and not chain and size(st.orelse) < size(st.body):
                    # both ways out: the shorter block is the guard
                    st.test = _negated(st.test)
                    st.body, st.orelse = st.orelse, st.body
                if exits(st.body):
                    work = st.orelse + work
                    st.orelse = []
                    count += 1
                elif exits(st.orelse) and not chain:
                    st.test = _negated(st.test)
                    rest, st.body = st.body, st.orelse
                    st.orelse = []
                    work = rest + work
                    count += 1
            if isinstance(st, ast.If) and not st.orelse and exits(st.body) and work and exits(work) \
                    and not in_chain and size(work) < size(st.body):
                # `if T: <long, exits>` + `<short, exits>`: the short one is the guard
                st.test = _negated(st.test)
                st.body, work = work, st.body
                count += 1
            if in_loop and not work and isinstance(st, ast.If) and not st.orelse \
                    and not exits(st.body) and st.body:
                guard = ast.copy_location(ast.If(
                    test=_negated(st.test),
                    body=[ast.copy_location(ast.Continue(), st)], orelse=[]), st)
                out.append(guard)
                work = list(st.body)
                count += 1
                continue
            out.append(st)
        return out

    for node in ast.walk(tree):
        for field in ('body', 'orelse', 'finalbody'):
            stmts = getattr(node, field, None)
            if isinstance(stmts, list) and stmts and isinstance(stmts[0], ast.stmt):
                in_loop = isinstance(node, (ast.For, ast.While)) and field == 'body'
                # the else branch of an elif chain is left as the author wrote it
                in_chain = isinstance(node, ast.If) and field == 'orelse' and len(stmts) == 1
                setattr(node, field, flat(stmts, in_loop, in_chain))
    return count


class Module:
    def __init__(self, name, path, elsewhere=''):
        self.name = name
        self.path = path
        with open(path, encoding='utf-8') as handle:
            self.src = handle.read()
        try:
            self.tree = ast.parse(self.src, filename=path)
        except SyntaxError as err:  # a tree that does not compile
            raise AnalysisError('cannot parse {0}: {1}'.format(path, err))
        from .inline import inline_private_helpers
        self.flattened_bases = flatten_private_bases(self.tree, elsewhere)
        self.inlined_helpers = inline_private_helpers(self.tree, name, elsewhere)
        self.pruned_tests = prune_constant_tests(self.tree)
        self.unrolled_callee_loops = unroll_callee_loops(self.tree)
        if self.unrolled_callee_loops:
            # calls that became visible by unrolling
            self.inlined_helpers += inline_private_helpers(self.tree, name, elsewhere)
        self.unrolled_comprehensions = unroll_constant_comprehensions(self.tree)
        self.unrolled_comprehensions += unroll_guarded_unpacking(self.tree)
        self.folded_unpackings = fold_target_unpacking(self.tree)
        self.split_tuple_locals = split_tuple_locals(self.tree)
        self.split_tuples = split_tuple_assignments(self.tree)
        self.sunk_callees = sink_selected_callees(self.tree)
        if self.sunk_callees:
            self.pruned_tests += prune_constant_tests(self.tree)
        self.unrolled_joins = unroll_join_accumulations(self.tree) + unroll_join_tails(self.tree)
        self.unrolled_records = unroll_record_comprehensions(self.tree)
        self.unrolled_records += unroll_genexp_loops(self.tree)
        self.propagated_constants = propagate_module_constants(self.tree)
        self.inlined_aliases = inline_attribute_aliases(self.tree)
        self.inlined_temporaries = inline_test_temporaries(self.tree)
        self.inlined_pure_temporaries = inline_pure_temporaries(self.tree)
        self.oriented_comparisons = orient_comparisons(self.tree)
        self.positive_branches = positive_branches(self.tree)
        self.flattened_guards = flatten_guards(self.tree)
        self.funcs = {}      # qualname -> FunctionDef
        self.classes = {}    # name -> ClassDef
        self.func_class = {}  # qualname -> class name or None
        self._index()

    def _index(self):
        for node in ast.walk(self.tree):
            for child in ast.iter_child_nodes(node):
                child._parent = node
        self.tree._parent = None

        def visit(body, prefix, cls):
            for node in body:
                if isinstance(node, (ast.FunctionDef, ast.AsyncFunctionDef)):
                    qual = prefix + node.name
                    # keep the last definition (overload stubs come first)
                    self.funcs[qual] = node
                    self.func_class[qual] = cls
                    node._qualname = qual
                    node._module = self
                    visit(node.body, qual + '.<locals>.', cls)
                elif isinstance(node, ast.ClassDef):
                    self.classes[prefix + node.name] = node
                    node._module = self
                    visit(node.body, prefix + node.name + '.', prefix + node.name)
                elif isinstance(node, (ast.If, ast.Try, ast.With, ast.For, ast.While)):
                    for field in ('body', 'orelse', 'finalbody'):
                        visit(getattr(node, field, []) or [], prefix, cls)
                    for handler in getattr(node, 'handlers', []) or []:
                        visit(handler.body, prefix, cls)
        visit(self.tree.body, '', None)

    def func(self, qualname):
        try:
            return self.funcs[qualname]
        except KeyError:
            raise AnalysisError('anchor missing: function {0}.{1}'.format(
                self.name, qualname))

    def cls(self, name):
        try:
            return self.classes[name]
        except KeyError:
            raise AnalysisError('anchor missing: class {0}.{1}'.format(
                self.name, name))

    def has_func(self, qualname):
        return qualname in self.funcs

    def module_assigns(self):
        """Top-level ``NAME = expr`` / ``NAME: T = expr`` -> {name: value node}."""
        res = {}
        for node in self.tree.body:
            if isinstance(node, ast.Assign):
                for tgt in node.targets:
                    if isinstance(tgt, ast.Name):
                        res[tgt.id] = node.value
            elif isinstance(node, ast.AnnAssign) and node.value is not None:
                if isinstance(node.target, ast.Name):
                    res[node.target.id] = node.value
        return res


class Program:
    def __init__(self, root):
        self.root = os.path.abspath(root)
        self.pkg = os.path.join(self.root, 'propka')
        if not os.path.isdir(self.pkg):
            raise AnalysisError('no propka package under {0}'.format(root))
        self.modules = {}
        for fname in sorted(os.listdir(self.pkg)):
            if not fname.endswith('.py'):
                continue
            name = fname[:-3]
            if name in SKIP_MODULES:
                continue
            # what the other files of the package say (to tell a class that is local
            # to its module from one that others use)
            elsewhere = []
            for other in sorted(os.listdir(self.pkg)):
                if other.endswith('.py') and other != fname:
                    try:
                        with open(os.path.join(self.pkg, other), encoding='utf-8') as handle:
                            elsewhere.append(handle.read())
                    except OSError:
                        pass
            self.modules[name] = Module(name, os.path.join(self.pkg, fname), '\n'.join(elsewhere))
        self._cfg = None
        self._bonds = None

    def mod(self, name):
        try:
            return self.modules[name]
        except KeyError:
            raise AnalysisError('anchor missing: module propka.{0}'.format(name))

    def func(self, module, qualname):
        return self.mod(module).func(qualname)

    def find_func(self, module, qualname):
        mod = self.modules.get(module)
        if mod is None:
            return None
        return mod.funcs.get(qualname)

    def all_funcs(self):
        for mod in self.modules.values():
            for qual, node in mod.funcs.items():
                yield mod, qual, node

    @property
    def cfg_path(self):
        return os.path.join(self.pkg, 'propka.cfg')

    def cfg_text(self):
        try:
            with open(self.cfg_path, encoding='utf-8') as handle:
                return handle.read()
        except OSError as err:
            raise AnalysisError('cannot read propka.cfg: {0}'.format(err))

    def protein_bonds(self):
        if self._bonds is None:
            path = os.path.join(self.pkg, 'protein_bonds.json')
            try:
                with open(path, encoding='utf-8') as handle:
                    self._bonds = json.load(handle)
            except (OSError, ValueError) as err:
                raise AnalysisError('cannot read protein_bonds.json: {0}'.format(err))
        return self._bonds

    def digest(self):
        h = hashlib.sha256()
        for name in sorted(self.modules):
            h.update(name.encode())
            h.update(self.modules[name].src.encode())
        h.update(self.cfg_text().encode())
        return h.hexdigest()[:16]

    def stats(self):
        return {
            'modules': len(self.modules),
            'functions': sum(len(m.funcs) for m in self.modules.values()),
            'classes': sum(len(m.classes) for m in self.modules.values()),
            'source_digest': self.digest(),
        }


def load(root):
    return Program(root)
