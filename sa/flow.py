"""Structured forward dataflow over the statement kinds the repo uses.

Instead of an explicit CFG the executor walks the (structured) syntax tree:
``if``/``while``/``for``/``try``/``with``/``return``/``raise``/``break``/
``continue``, with short-circuit tests split into atomic assumptions and
loops solved by fix-point iteration.  A client supplies a lattice:

    initial()                      -> state
    join(a, b)                     -> state          (a, b never None)
    transfer(stmt, state)          -> state          simple statements
    eval_test(expr, state)         -> state          effects of evaluating a test atom
    assume(expr, polarity, state)  -> state | None   None = edge infeasible
    bind_loop(stmt, state)         -> state          effect of binding a for-target
    enter_with(stmt, state)        -> state

``None`` is the unreachable state.  Path-sensitive clients use a frozenset of
facts as the state and set union as join.
"""
import ast


class Outcome:
    __slots__ = ('fall', 'brk', 'cont', 'rets', 'raises')

    def __init__(self, fall=None):
        self.fall = fall
        self.brk = None
        self.cont = None
        self.rets = []     # (stmt, state)
        self.raises = []   # (stmt, state)


class Analysis:
    max_iter = 50

    def initial(self):
        return frozenset()

    def join(self, a, b):
        return a | b

    def equal(self, a, b):
        return a == b

    def transfer(self, stmt, state):
        return state

    def eval_test(self, expr, state):
        return state

    def assume(self, expr, polarity, state):
        return state

    def bind_loop(self, stmt, state):
        return state

    def enter_with(self, stmt, state):
        return state

    def at_return(self, stmt, state):
        return state

    # ---------------------------------------------------------------- engine
    def _join(self, a, b):
        if a is None:
            return b
        if b is None:
            return a
        return self.join(a, b)

    def _assume(self, test, pol, state):
        if state is None:
            return None
        if isinstance(test, ast.UnaryOp) and isinstance(test.op, ast.Not):
            return self._assume(test.operand, not pol, state)
        if isinstance(test, ast.BoolOp):
            is_and = isinstance(test.op, ast.And)
            if is_and == pol:
                # all operands evaluated, all have polarity pol
                cur = state
                for val in test.values:
                    cur = self._assume(val, pol, cur)
                    if cur is None:
                        return None
                return cur
            # some operand stops the evaluation with polarity `pol`
            res = None
            cur = state
            for val in test.values:
                res = self._join(res, self._assume(val, pol, cur))
                cur = self._assume(val, not pol, cur)
                if cur is None:
                    break
            return res
        state = self.eval_test(test, state)
        if state is None:
            return None
        return self.assume(test, pol, state)

    def run_function(self, func, state=None):
        if state is None:
            state = self.initial()
        out = self.run_block(func.body, state)
        return out

    def exit_states(self, func, state=None):
        """[(stmt or None, state)] for every normal exit (returns and falling
        off the end)."""
        out = self.run_function(func, state)
        res = list(out.rets)
        if out.fall is not None:
            res.append((None, out.fall))
        return res

    def run_block(self, stmts, state):
        out = Outcome(state)
        for stmt in stmts:
            if out.fall is None:
                break
            sub = self.run_stmt(stmt, out.fall)
            out.fall = sub.fall
            out.brk = self._join(out.brk, sub.brk)
            out.cont = self._join(out.cont, sub.cont)
            out.rets.extend(sub.rets)
            out.raises.extend(sub.raises)
        return out

    def _merge(self, out, sub):
        out.brk = self._join(out.brk, sub.brk)
        out.cont = self._join(out.cont, sub.cont)
        out.rets.extend(sub.rets)
        out.raises.extend(sub.raises)

    def run_stmt(self, stmt, state):
        if isinstance(stmt, ast.If):
            out = Outcome(None)
            s_t = self._assume(stmt.test, True, state)
            s_f = self._assume(stmt.test, False, state)
            if s_t is not None:
                sub = self.run_block(stmt.body, s_t)
                out.fall = self._join(out.fall, sub.fall)
                self._merge(out, sub)
            if s_f is not None:
                sub = self.run_block(stmt.orelse, s_f)
                out.fall = self._join(out.fall, sub.fall)
                self._merge(out, sub)
            return out
        if isinstance(stmt, (ast.While, ast.For)):
            return self._run_loop(stmt, state)
        if isinstance(stmt, ast.Return):
            out = Outcome(None)
            state = self.transfer(stmt, state)
            if state is not None:
                out.rets.append((stmt, self.at_return(stmt, state)))
            return out
        if isinstance(stmt, ast.Raise):
            out = Outcome(None)
            state = self.transfer(stmt, state)
            if state is not None:
                out.raises.append((stmt, state))
            return out
        if isinstance(stmt, ast.Break):
            out = Outcome(None)
            out.brk = state
            return out
        if isinstance(stmt, ast.Continue):
            out = Outcome(None)
            out.cont = state
            return out
        if isinstance(stmt, ast.With):
            state = self.enter_with(stmt, state)
            return self.run_block(stmt.body, state) if state is not None else Outcome(None)
        if isinstance(stmt, ast.Try):
            return self._run_try(stmt, state)
        if isinstance(stmt, (ast.FunctionDef, ast.AsyncFunctionDef, ast.ClassDef)):
            return Outcome(self.transfer(stmt, state))
        if isinstance(stmt, ast.Assert):
            st = self._assume(stmt.test, True, state)
            return Outcome(st)
        return Outcome(self.transfer(stmt, state))

    def _run_loop(self, stmt, state):
        out = Outcome(None)
        head = state
        exit_state = None
        for _ in range(self.max_iter):
            if isinstance(stmt, ast.While):
                body_in = self._assume(stmt.test, True, head)
                done = self._assume(stmt.test, False, head)
            else:
                body_in = self.bind_loop(stmt, head)
                done = head
            sub = Outcome(None) if body_in is None else self.run_block(stmt.body, body_in)
            new_head = self._join(state, self._join(sub.fall, sub.cont))
            exit_state = done
            last = sub
            if new_head is None or (head is not None and self.equal(new_head, head)):
                break
            head = new_head
        else:
            raise RuntimeError('flow: loop did not stabilise at line %d' % stmt.lineno)
        # re-evaluate exits with the stable head
        if isinstance(stmt, ast.While):
            done = self._assume(stmt.test, False, head)
        else:
            done = head
        out.rets.extend(last.rets)
        out.raises.extend(last.raises)
        if stmt.orelse and done is not None:
            sub = self.run_block(stmt.orelse, done)
            done = sub.fall
            self._merge(out, sub)
        out.fall = self._join(done, last.brk)
        return out

    def _run_try(self, stmt, state):
        out = Outcome(None)
        # states from which an exception may be raised: entry and after every
        # top-level statement of the body (coarse but sound for our clients)
        may_raise = state
        cur = state
        body_out = Outcome(state)
        for sub_stmt in stmt.body:
            if cur is None:
                break
            sub = self.run_stmt(sub_stmt, cur)
            self._merge(body_out, sub)
            for _s, st in sub.raises:
                may_raise = self._join(may_raise, st)
            cur = sub.fall
            may_raise = self._join(may_raise, cur)
        body_out.fall = cur
        fall = None
        if cur is not None:
            if stmt.orelse:
                sub = self.run_block(stmt.orelse, cur)
                fall = sub.fall
                self._merge(out, sub)
            else:
                fall = cur
        out.brk = self._join(out.brk, body_out.brk)
        out.cont = self._join(out.cont, body_out.cont)
        out.rets.extend(body_out.rets)
        if not stmt.handlers:
            out.raises.extend(body_out.raises)
        for handler in stmt.handlers:
            if may_raise is None:
                continue
            sub = self.run_block(handler.body, may_raise)
            fall = self._join(fall, sub.fall)
            self._merge(out, sub)
        if stmt.finalbody:
            if fall is not None:
                sub = self.run_block(stmt.finalbody, fall)
                fall = sub.fall
                self._merge(out, sub)
        out.fall = fall
        return out


def enumerate_paths(func, analysis_cls, limit=4096):
    """Path-sensitive helper: run ``analysis_cls`` whose state is a frozenset
    of path records; the caller's transfer functions extend each record."""
    ana = analysis_cls()
    exits = ana.exit_states(func)
    total = sum(len(st) for _s, st in exits)
    if total > limit:
        raise RuntimeError('more than %d paths' % limit)
    return exits
