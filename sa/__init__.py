"""Static-analysis engine for the propka verification checks (stdlib only)."""
