"""Constant propagation over straight-line initialisation code.

A small evaluator for the pure, literal-driven statements the repo uses to
build tables (``BondMaker.__init__``, ``Protonate.__init__``, module-level
constants).  Anything it does not understand evaluates to ``UNKNOWN`` and
poisons whatever depends on it; callers must treat UNKNOWN as "cannot
decide" (exit 2), never as a pass.  No propka code is executed: the
evaluator interprets the *syntax tree*.
"""
import ast
import math

from .astutil import dotted


class _Unknown:
    def __repr__(self):
        return 'UNKNOWN'


UNKNOWN = _Unknown()


def _unk(*vals):
    return any(v is UNKNOWN for v in vals)


class ConstEval:
    def __init__(self, env=None, max_iter=10000):
        self.env = dict(env or {})
        self.max_iter = max_iter

    # ------------------------------------------------------------ expressions
    def ev(self, node):
        meth = getattr(self, 'ev_' + type(node).__name__, None)
        if meth is None:
            return UNKNOWN
        try:
            return meth(node)
        except (TypeError, ValueError, KeyError, IndexError, ZeroDivisionError,
                OverflowError, AttributeError):
            return UNKNOWN

    def ev_Constant(self, node):
        return node.value

    def ev_Name(self, node):
        return self.env.get(node.id, UNKNOWN)

    def ev_Attribute(self, node):
        name = dotted(node)
        if name is not None and name in self.env:
            return self.env[name]
        if name == 'math.pi':
            return math.pi
        if name == 'math.inf':
            return math.inf
        return UNKNOWN

    def ev_Dict(self, node):
        res = {}
        for k, v in zip(node.keys, node.values):
            if k is None:
                return UNKNOWN
            kv, vv = self.ev(k), self.ev(v)
            if _unk(kv):
                return UNKNOWN
            res[kv] = vv
        return res

    def ev_List(self, node):
        return [self.ev(e) for e in node.elts]

    def ev_Tuple(self, node):
        return tuple(self.ev(e) for e in node.elts)

    def ev_Set(self, node):
        vals = [self.ev(e) for e in node.elts]
        if _unk(*vals):
            return UNKNOWN
        return set(vals)

    def _comp(self, generators, emit):
        """Evaluate a comprehension with known iterables; ``emit()`` is called
        for every binding of the targets.  Returns False if something is unknown."""
        saved = dict(self.env)
        ok = [True]
        budget = [self.max_iter]

        def rec(i):
            if not ok[0]:
                return
            if i == len(generators):
                emit()
                return
            gen = generators[i]
            seq = self.ev(gen.iter)
            if isinstance(seq, dict):
                seq = list(seq)
            if _unk(seq) or not isinstance(seq, (list, tuple, set, frozenset, str)):
                ok[0] = False
                return
            for item in (sorted(seq) if isinstance(seq, (set, frozenset)) else seq):
                budget[0] -= 1
                if budget[0] < 0:
                    ok[0] = False
                    return
                self._store(gen.target, item)
                conds = [self.ev(c) for c in gen.ifs]
                if _unk(*conds):
                    ok[0] = False
                    return
                if all(conds):
                    rec(i + 1)
        rec(0)
        self.env = saved
        return ok[0]

    def ev_ListComp(self, node):
        res = []
        return res if self._comp(node.generators, lambda: res.append(self.ev(node.elt))) else UNKNOWN

    def ev_GeneratorExp(self, node):
        return self.ev_ListComp(node)

    def ev_SetComp(self, node):
        res = []
        if not self._comp(node.generators, lambda: res.append(self.ev(node.elt))) or _unk(*res):
            return UNKNOWN
        return set(res)

    def ev_DictComp(self, node):
        res = {}

        def emit():
            k = self.ev(node.key)
            res[k if not _unk(k) else UNKNOWN] = self.ev(node.value)
        if not self._comp(node.generators, emit) or any(_unk(k) for k in res):
            return UNKNOWN
        return res

    def ev_UnaryOp(self, node):
        val = self.ev(node.operand)
        if _unk(val):
            return UNKNOWN
        if isinstance(node.op, ast.USub):
            return -val
        if isinstance(node.op, ast.UAdd):
            return +val
        if isinstance(node.op, ast.Not):
            return not val
        return UNKNOWN

    def ev_BinOp(self, node):
        left, right = self.ev(node.left), self.ev(node.right)
        if _unk(left, right):
            return UNKNOWN
        if isinstance(left, list) and any(_unk(v) for v in left):
            pass
        op = node.op
        if isinstance(op, ast.Add):
            return left + right
        if isinstance(op, ast.Sub):
            return left - right
        if isinstance(op, ast.Mult):
            return left * right
        if isinstance(op, ast.Div):
            return left / right
        if isinstance(op, ast.FloorDiv):
            return left // right
        if isinstance(op, ast.Pow):
            return left ** right
        if isinstance(op, ast.Mod):
            return left % right
        if isinstance(op, ast.BitOr):
            return left | right
        return UNKNOWN

    def ev_Subscript(self, node):
        base = self.ev(node.value)
        if _unk(base):
            return UNKNOWN
        if isinstance(node.slice, ast.Slice):
            lo = None if node.slice.lower is None else self.ev(node.slice.lower)
            hi = None if node.slice.upper is None else self.ev(node.slice.upper)
            if _unk(lo, hi):
                return UNKNOWN
            return base[lo:hi]
        idx = self.ev(node.slice)
        if _unk(idx):
            return UNKNOWN
        return base[idx]

    def ev_Compare(self, node):
        left = self.ev(node.left)
        for op, comp in zip(node.ops, node.comparators):
            right = self.ev(comp)
            if _unk(left, right):
                return UNKNOWN
            if isinstance(op, ast.Eq):
                ok = left == right
            elif isinstance(op, ast.NotEq):
                ok = left != right
            elif isinstance(op, ast.Lt):
                ok = left < right
            elif isinstance(op, ast.LtE):
                ok = left <= right
            elif isinstance(op, ast.Gt):
                ok = left > right
            elif isinstance(op, ast.GtE):
                ok = left >= right
            elif isinstance(op, ast.In):
                ok = left in right
            elif isinstance(op, ast.NotIn):
                ok = left not in right
            else:
                return UNKNOWN
            if not ok:
                return False
            left = right
        return True

    def ev_Call(self, node):
        name = dotted(node.func)
        if name in ('itertools.product', 'product') and node.args and all(k.arg == 'repeat' for k in node.keywords):
            import itertools as _it
            seqs = [self.ev(a) for a in node.args]
            rep = self.ev(node.keywords[0].value) if node.keywords else 1
            if not _unk(*seqs) and not _unk(rep) and isinstance(rep, int) and all(
                    isinstance(q, (list, tuple, str)) for q in seqs):
                size = 1
                for q in seqs:
                    size *= max(len(q), 1)
                if size ** rep <= 4096:
                    return list(_it.product(*seqs, repeat=rep))
            return UNKNOWN
        if node.keywords:
            return UNKNOWN
        args = [self.ev(a) for a in node.args]
        if name in ('max', 'min'):
            seq = args[0] if len(args) == 1 else args
            if _unk(seq) or any(_unk(v) for v in seq):
                return UNKNOWN
            return max(seq) if name == 'max' else min(seq)
        if name in ('list', 'tuple', 'set', 'sorted') and len(args) == 1:
            if _unk(args[0]):
                return UNKNOWN
            return {'list': list, 'tuple': tuple, 'set': set,
                    'sorted': sorted}[name](args[0])
        if name in ('len', 'abs', 'float', 'int', 'str') and len(args) == 1:
            if _unk(args[0]):
                return UNKNOWN
            return {'len': len, 'abs': abs, 'float': float, 'int': int,
                    'str': str}[name](args[0])
        if name in ('ord', 'chr') and len(args) == 1 and not _unk(args[0]):
            try:
                return ord(args[0]) if name == 'ord' else chr(args[0])
            except (TypeError, ValueError):
                return UNKNOWN
        if name == 'range' and args and not _unk(*args):
            return list(range(*args))
        if name == 'str.maketrans' and 1 <= len(args) <= 3 and not _unk(*args):
            try:
                return str.maketrans(*args)
            except (TypeError, ValueError):
                return UNKNOWN
        if name and name.startswith('math.') and not _unk(*args):
            fn = getattr(math, name[5:], None)
            if fn in (math.sqrt, math.pow, math.floor, math.radians, math.ceil):
                return fn(*args)
        if isinstance(node.func, ast.Attribute):
            base = self.ev(node.func.value)
            if _unk(base):
                return UNKNOWN
            meth = node.func.attr
            if isinstance(base, dict) and meth in ('keys', 'values', 'items') and not args:
                return list(getattr(base, meth)())
            if isinstance(base, dict) and meth == 'get' and args and not _unk(*args):
                return base.get(*args)
            if isinstance(base, str) and meth in ('strip', 'lower', 'upper', 'isdigit', 'isalpha',
                                                  'isupper', 'islower', 'isspace') and not args:
                return getattr(base, meth)()
            # pure string methods on a known string with known arguments
            if isinstance(base, str) and meth in (
                    'strip', 'lstrip', 'rstrip', 'startswith', 'endswith', 'replace', 'split',
                    'ljust', 'rjust', 'zfill', 'count', 'find', 'format', 'join', 'title',
                    'capitalize', 'translate') and not _unk(*args) and not node.keywords:
                try:
                    return getattr(base, meth)(*args)
                except (TypeError, ValueError, IndexError, KeyError):
                    return UNKNOWN
        return UNKNOWN

    # ------------------------------------------------------------- statements
    def _store(self, tgt, val):
        if isinstance(tgt, ast.Name):
            self.env[tgt.id] = val
        elif isinstance(tgt, ast.Attribute):
            name = dotted(tgt)
            if name is not None:
                self.env[name] = val
        elif isinstance(tgt, ast.Subscript):
            base = self.ev(tgt.value)
            idx = self.ev(tgt.slice)
            if isinstance(base, (dict, list)) and not _unk(idx):
                try:
                    base[idx] = val
                except (IndexError, TypeError):
                    pass
            else:
                name = dotted(tgt.value)
                if name is not None:
                    self.env[name] = UNKNOWN
        elif isinstance(tgt, (ast.Tuple, ast.List)):
            if isinstance(val, (list, tuple)) and len(val) == len(tgt.elts):
                for elt, v in zip(tgt.elts, val):
                    self._store(elt, v)
            else:
                for elt in tgt.elts:
                    self._store(elt, UNKNOWN)

    def run(self, stmts):
        for stmt in stmts:
            self.step(stmt)
        return self.env

    def step(self, stmt):
        if isinstance(stmt, ast.Assign):
            val = self.ev(stmt.value)
            for tgt in stmt.targets:
                self._store(tgt, val)
        elif isinstance(stmt, ast.AnnAssign):
            if stmt.value is not None:
                self._store(stmt.target, self.ev(stmt.value))
        elif isinstance(stmt, ast.AugAssign):
            cur = self.ev(stmt.target)
            val = self.ev(stmt.value)
            fake = ast.BinOp(left=ast.Constant(cur), op=stmt.op, right=ast.Constant(val))
            self._store(stmt.target, UNKNOWN if _unk(cur, val) else self.ev(fake))
        elif isinstance(stmt, ast.For):
            seq = self.ev(stmt.iter)
            if isinstance(seq, dict):
                seq = list(seq)
            if _unk(seq) or not isinstance(seq, (list, tuple)) or len(seq) > self.max_iter:
                self._havoc(stmt)
                return
            for item in list(seq):
                self._store(stmt.target, item)
                self.run(stmt.body)
        elif isinstance(stmt, ast.If):
            cond = self.ev(stmt.test)
            if _unk(cond):
                self._havoc(stmt)
            elif cond:
                self.run(stmt.body)
            else:
                self.run(stmt.orelse)
        elif isinstance(stmt, ast.With):
            for item in stmt.items:
                if item.optional_vars is not None:
                    self._store(item.optional_vars, UNKNOWN)
            self.run(stmt.body)
        elif isinstance(stmt, ast.Expr):
            # method calls with side effects on known containers
            call = stmt.value
            if isinstance(call, ast.Call) and isinstance(call.func, ast.Attribute):
                base = self.ev(call.func.value)
                args = [self.ev(a) for a in call.args]
                if isinstance(base, list) and call.func.attr == 'append' and len(args) == 1:
                    base.append(args[0])
                elif isinstance(base, list) and call.func.attr == 'extend' and len(args) == 1 \
                        and isinstance(args[0], (list, tuple)):
                    base.extend(args[0])
                elif isinstance(base, (list, dict, set)):
                    name = dotted(call.func.value)
                    if name is not None and call.func.attr not in (
                            'keys', 'values', 'items', 'get', 'index', 'count'):
                        self.env[name] = UNKNOWN
        elif isinstance(stmt, (ast.Import, ast.ImportFrom, ast.Pass, ast.FunctionDef,
                               ast.ClassDef, ast.Return, ast.Assert)):
            pass
        else:
            self._havoc(stmt)

    def _havoc(self, stmt):
        for node in ast.walk(stmt):
            if isinstance(node, (ast.Name, ast.Attribute, ast.Subscript)) and \
                    isinstance(getattr(node, 'ctx', None), ast.Store):
                tgt = node.value if isinstance(node, ast.Subscript) else node
                name = dotted(tgt)
                if name is not None:
                    self.env[name] = UNKNOWN


def eval_init(prog, module, cls, extra_env=None):
    """Evaluate module-level constants then ``cls.__init__`` of ``module``;
    returns env with 'self.<attr>' keys."""
    mod = prog.mod(module)
    ce = ConstEval(extra_env)
    ce.run([s for s in mod.tree.body
            if isinstance(s, (ast.Assign, ast.AnnAssign))])
    init = mod.func(cls + '.__init__')
    ce.run(init.body)
    return ce.env
