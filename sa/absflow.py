"""Interval abstract interpretation of function bodies (forward, structured).

State: mapping name -> abstract value, where names are locals and dotted
attribute chains (``group.buried``).  Values are closed intervals
(sa.absint.AV, monotonicity unused), tuples of values, or NONE (the Python
``None``, identity of the join: callers of the numeric kernels test the result
for truthiness before use).  Joins take interval hulls; loops are widened
after three rounds.  Comparisons against foldable constants refine intervals
on branch edges.  Calls are resolved by a client-supplied hook (function
summaries); unknown calls and names evaluate to TOP.
"""
import ast
import math

from . import absint
from .absint import AV, TOP, INF, const
from .astutil import dotted, norm, call_name
from .flow import Analysis


class _None:
    def __repr__(self):
        return 'NONE'


NONE = _None()


class TupleV:
    def __init__(self, items):
        self.items = list(items)

    def __repr__(self):
        return 'Tuple%r' % (self.items,)


class TableV:
    """A mapping every value of which lies within ``row`` (an interval or a
    tuple of intervals): what a subscript of it with any key evaluates to."""
    def __init__(self, row):
        self.row = row

    def __repr__(self):
        return 'Table[%r]' % (self.row,)


def hull(a, b):
    if a is NONE:
        return b
    if b is NONE:
        return a
    if isinstance(a, TableV) and isinstance(b, TableV):
        r = hull(a.row, b.row)
        return TOP if r is TOP else TableV(r)
    if isinstance(a, TupleV) and isinstance(b, TupleV) and len(a.items) == len(b.items):
        return TupleV([hull(x, y) for x, y in zip(a.items, b.items)])
    if isinstance(a, AV) and isinstance(b, AV):
        return AV(min(a.lo, b.lo), max(a.hi, b.hi), 'const')
    return TOP


def same(a, b):
    if a is NONE or b is NONE:
        return a is b
    if isinstance(a, TupleV) and isinstance(b, TupleV):
        return len(a.items) == len(b.items) and all(same(x, y) for x, y in zip(a.items, b.items))
    if isinstance(a, AV) and isinstance(b, AV):
        return a.lo == b.lo and a.hi == b.hi
    if isinstance(a, TableV) and isinstance(b, TableV):
        return same(a.row, b.row)
    return False


class AbsInterp(Analysis):
    max_iter = 12

    def __init__(self, env=None, consts=None, call_hook=None, attr_hook=None):
        self.base_env = dict(env or {})
        self.consts = dict(consts or {})
        self.call_hook = call_hook
        self.attr_hook = attr_hook
        self.probes = {}        # id(stmt) -> list of env dicts seen at that statement
        self.watch = set()
        self._loop_round = {}

    # ----------------------------------------------------------- state plumbing
    def initial(self):
        return tuple(sorted(self.base_env.items(), key=lambda kv: kv[0]))

    @staticmethod
    def _d(state):
        return dict(state)

    @staticmethod
    def _s(d):
        return tuple(sorted(d.items(), key=lambda kv: kv[0]))

    def join(self, a, b):
        da, db = dict(a), dict(b)
        res = {}
        for k in set(da) | set(db):
            if k in da and k in db:
                res[k] = hull(da[k], db[k])
            else:
                res[k] = da.get(k, db.get(k))
        return self._s(res)

    def equal(self, a, b):
        da, db = dict(a), dict(b)
        return set(da) == set(db) and all(same(da[k], db[k]) for k in da)

    # ----------------------------------------------------------------- values
    def ev(self, node, env):
        name = dotted(node)
        if name is not None and name in env:
            return env[name]
        if isinstance(node, ast.Constant):
            if node.value is None:
                return NONE
            if isinstance(node.value, bool):
                return const(int(node.value))
            if isinstance(node.value, (int, float)):
                return const(node.value)
            return TOP
        if isinstance(node, (ast.Name, ast.Attribute)):
            if name in self.consts:
                return const(self.consts[name])
            if name == 'math.pi':
                return const(math.pi)
            if self.attr_hook is not None:
                v = self.attr_hook(name, node)
                if v is not None:
                    return v
            return TOP
        if isinstance(node, (ast.Tuple, ast.List)):
            return TupleV([self.ev(e, env) for e in node.elts])
        if isinstance(node, ast.UnaryOp):
            v = self.ev(node.operand, env)
            if isinstance(node.op, ast.USub) and isinstance(v, AV):
                return absint.neg(v)
            if isinstance(node.op, ast.UAdd):
                return v
            return TOP
        if isinstance(node, ast.BinOp):
            return self._binop(node, env)
        if isinstance(node, ast.IfExp):
            return hull(self.ev(node.body, env), self.ev(node.orelse, env))
        if isinstance(node, ast.Subscript):
            base = self.ev(node.value, env)
            if isinstance(base, TupleV) and isinstance(node.slice, ast.Constant) \
                    and isinstance(node.slice.value, int) and -len(base.items) <= node.slice.value < len(base.items):
                return base.items[node.slice.value]
            key = norm(node)
            if key in env:
                return env[key]
            if isinstance(base, TableV) and not isinstance(node.slice, ast.Slice):
                return base.row
            if self.attr_hook is not None:
                v = self.attr_hook(key, node)
                if v is not None:
                    return v
            return TOP
        if isinstance(node, ast.Call):
            return self._call(node, env)
        if isinstance(node, ast.Compare) or isinstance(node, ast.BoolOp):
            return AV(0, 1)
        return TOP

    def _num(self, v):
        return v if isinstance(v, AV) else TOP

    def _binop(self, node, env):
        op = node.op
        if isinstance(op, ast.Sub) and norm(node.left) == norm(node.right):
            return const(0.0)
        a, b = self.ev(node.left, env), self.ev(node.right, env)
        if isinstance(op, ast.Add) and isinstance(a, TupleV) and isinstance(b, TupleV):
            return TupleV(a.items + b.items)
        a, b = self._num(a), self._num(b)
        helper = absint.Evaluator()
        if isinstance(op, ast.Add):
            return self._c(absint.add(a, b))
        if isinstance(op, ast.Sub):
            return self._c(absint.sub(a, b))
        if isinstance(op, ast.Mult):
            if norm(node.left) == norm(node.right):
                m = max(abs(a.lo), abs(a.hi))
                lo = 0.0 if a.lo <= 0 <= a.hi else min(a.lo * a.lo, a.hi * a.hi)
                return AV(lo, absint._mul(m, m))
            return self._c(absint.mul(a, b))
        if isinstance(op, ast.Div):
            return self._c(absint.div(a, b))
        if isinstance(op, ast.Pow):
            return self._c(helper._pow(a, b))
        return TOP

    @staticmethod
    def _c(v):
        if v.lo != v.lo or v.hi != v.hi:    # NaN from inf - inf
            return TOP
        return AV(v.lo, v.hi, 'const')

    def _call(self, node, env):
        name = call_name(node) or ''
        args = [self.ev(a, env) for a in node.args]
        kwargs = {kw.arg: self.ev(kw.value, env) for kw in node.keywords if kw.arg}
        nums = [self._num(a) for a in args]
        if name == 'abs' and len(nums) == 1:
            a = nums[0]
            if a.lo >= 0:
                return a
            if a.hi <= 0:
                return absint.neg(a)
            return AV(0.0, max(-a.lo, a.hi))
        if name in ('float', 'int') and len(nums) == 1:
            return nums[0]
        if name == 'round' and nums:
            return nums[0]
        if name == 'min' and len(nums) >= 2:
            return AV(min(a.lo for a in nums), min(a.hi for a in nums))
        if name == 'max' and len(nums) >= 2:
            return AV(max(a.lo for a in nums), max(a.hi for a in nums))
        if name == 'len':
            return AV(0, INF)
        if name == 'math.sqrt' and len(nums) == 1:
            a = nums[0]
            lo = math.sqrt(a.lo) if a.lo > 0 else 0.0
            return AV(lo, INF if a.hi == INF else math.sqrt(max(a.hi, 0.0)))
        if name == 'math.pow' and len(nums) == 2:
            return self._c(absint.Evaluator()._pow(nums[0], nums[1]))
        if self.call_hook is not None:
            v = self.call_hook(name, node, args, kwargs, self)
            if v is not None:
                return v
        return TOP

    # ---------------------------------------------------------------- transfer
    def _store(self, d, tgt, val):
        if isinstance(tgt, (ast.Name, ast.Attribute)):
            name = dotted(tgt)
            if name is not None:
                d[name] = val
        elif isinstance(tgt, (ast.Tuple, ast.List)):
            if isinstance(val, TupleV) and len(val.items) == len(tgt.elts):
                for e, v in zip(tgt.elts, val.items):
                    self._store(d, e, v)
            else:
                for e in tgt.elts:
                    self._store(d, e, TOP)
        elif isinstance(tgt, ast.Subscript):
            d[norm(tgt)] = val

    def transfer(self, stmt, state):
        d = self._d(state)
        if id(stmt) in self.watch:
            self.probes.setdefault(id(stmt), []).append(dict(d))
        if isinstance(stmt, ast.Assign):
            val = self.ev(stmt.value, d)
            for tgt in stmt.targets:
                self._store(d, tgt, val)
        elif isinstance(stmt, ast.AnnAssign) and stmt.value is not None:
            self._store(d, stmt.target, self.ev(stmt.value, d))
        elif isinstance(stmt, ast.AugAssign):
            fake = ast.BinOp(left=stmt.target, op=stmt.op, right=stmt.value)
            self._store(d, stmt.target, self._binop(fake, d))
        elif isinstance(stmt, ast.Return):
            d['<return>'] = self.ev(stmt.value, d) if stmt.value is not None else NONE
        elif isinstance(stmt, ast.Expr):
            if isinstance(stmt.value, ast.Call):
                self.ev(stmt.value, d)      # lets the call hook observe the site
        return self._s(d)

    def eval_test(self, expr, state):
        return state

    def assume(self, test, pol, state):
        d = self._d(state)
        if isinstance(test, ast.Compare) and len(test.ops) == 1:
            op = test.ops[0]
            left, right = test.left, test.comparators[0]
            lv, rv = self.ev(left, d), self.ev(right, d)
            if isinstance(op, (ast.Is, ast.IsNot)) and isinstance(right, ast.Constant) \
                    and right.value is None:
                is_none = isinstance(op, ast.Is) == pol
                if is_none and isinstance(lv, AV) and not lv.is_top:
                    return None if False else state
                return state
            if isinstance(lv, AV) and isinstance(rv, AV):
                kind = type(op)
                if not pol:
                    kind = {ast.Lt: ast.GtE, ast.LtE: ast.Gt, ast.Gt: ast.LtE, ast.GtE: ast.Lt,
                            ast.Eq: ast.NotEq, ast.NotEq: ast.Eq}.get(kind, kind)
                lname, rname = dotted(left), dotted(right)
                if lname is None and isinstance(left, ast.Subscript):
                    lname = norm(left)
                if rname is None and isinstance(right, ast.Subscript):
                    rname = norm(right)
                if kind in (ast.Lt, ast.LtE):
                    if lv.lo > rv.hi or (kind is ast.Lt and lv.lo >= rv.hi and lv.lo == lv.hi == rv.hi):
                        return None
                    if lname:
                        d[lname] = AV(lv.lo, min(lv.hi, rv.hi))
                    if rname:
                        d[rname] = AV(max(rv.lo, lv.lo), rv.hi)
                elif kind in (ast.Gt, ast.GtE):
                    if lv.hi < rv.lo:
                        return None
                    if lname:
                        d[lname] = AV(max(lv.lo, rv.lo), lv.hi)
                    if rname:
                        d[rname] = AV(rv.lo, min(rv.hi, lv.hi))
                elif kind is ast.Eq:
                    lo, hi = max(lv.lo, rv.lo), min(lv.hi, rv.hi)
                    if lo > hi:
                        return None
                    if lname:
                        d[lname] = AV(lo, hi)
                    if rname:
                        d[rname] = AV(lo, hi)
                elif kind is ast.NotEq:
                    if lv.lo == lv.hi == rv.lo == rv.hi:
                        return None
        elif isinstance(test, (ast.Name, ast.Attribute)):
            name = dotted(test)
            v = d.get(name)
            if v is NONE:
                return None if pol else state
            if isinstance(v, AV) and not pol and (v.lo > 0 or v.hi < 0):
                return None
            if isinstance(v, AV) and not pol and not v.is_top:
                # falsy number: exactly zero
                if v.lo <= 0 <= v.hi:
                    d[name] = const(0.0)
            if isinstance(v, AV) and pol and v.lo == 0 and v.hi == 0:
                return None
        return self._s(d)

    def bind_loop(self, stmt, state):
        d = self._d(state)
        rnd = self._loop_round.get(id(stmt), 0) + 1
        self._loop_round[id(stmt)] = rnd
        for n in ast.walk(stmt.target):
            if isinstance(n, ast.Name):
                d[n.id] = TOP
                for k in [k for k in d if k.startswith(n.id + '.') or k.startswith(n.id + '[')]:
                    del d[k]
        if rnd > 3:
            # widening: anything still moving goes to infinity in that direction
            prev = getattr(self, '_prev_head', {}).get(id(stmt))
            if prev is not None:
                for k, v in list(d.items()):
                    p = prev.get(k)
                    if isinstance(v, AV) and isinstance(p, AV):
                        lo = v.lo if v.lo >= p.lo else -INF
                        hi = v.hi if v.hi <= p.hi else INF
                        d[k] = AV(lo, hi)
        self.__dict__.setdefault('_prev_head', {})[id(stmt)] = dict(d)
        return self._s(d)


def _unroll_for(self, stmt, state):
    """Exact unrolling of ``for x in [<literals>]`` (at most 8 items)."""
    from .flow import Outcome
    out = Outcome(None)
    cur = state
    for elt in stmt.iter.elts:
        if cur is None:
            break
        d = self._d(cur)
        self._store(d, stmt.target, self.ev(elt, d))
        sub = self.run_block(stmt.body, self._s(d))
        out.rets.extend(sub.rets)
        out.raises.extend(sub.raises)
        out.brk = self._join(out.brk, sub.brk)
        cur = self._join(sub.fall, sub.cont)
    out.fall = self._join(cur, out.brk)
    out.brk = None
    return out


def _run_stmt(self, stmt, state):
    if isinstance(stmt, ast.For) and isinstance(stmt.iter, (ast.List, ast.Tuple)) \
            and len(stmt.iter.elts) <= 8 and not stmt.orelse:
        return _unroll_for(self, stmt, state)
    return Analysis.run_stmt(self, stmt, state)


AbsInterp.run_stmt = _run_stmt


def run_function(fn, interp):
    """Hull of the values returned by ``fn`` (NONE when it never returns a
    value) and the final interpreter (for probes)."""
    res = NONE
    for stmt, st in interp.exit_states(fn):
        d = dict(st)
        if stmt is not None and '<return>' in d:
            res = hull(res, d['<return>'])
    return res
