"""Call graph with a purpose-built resolver for this package's idioms.

Resolution order for a call site: local/imported name -> module attribute ->
``self.m`` through the class hierarchy (definition + overrides) ->
function-valued instance fields (``self.f = g`` in any ``__init__``; this
resolves the Version indirection) -> ``Class.m`` -> class-hierarchy analysis by
method name (every method of that name in the package) -> external.
Functions referenced as values (callbacks, ``key=``, dict-of-bound-methods)
get a may-call edge from the referencing function.  Operators add edges to
the matching dunder methods.  The result over-approximates the dynamic call
graph for calls that stay inside the package.
"""
import ast

from .astutil import dotted, walk_no_nested, call_name
from .loader import AnalysisError

OP_DUNDERS = {
    ast.Add: ['__add__', '__radd__'], ast.Sub: ['__sub__'], ast.Mult: ['__mul__', '__rmul__'],
    ast.Div: ['__truediv__'], ast.Pow: ['__pow__'], ast.MatMult: ['__matmul__'],
}
AUG_DUNDERS = {ast.Add: ['__iadd__', '__add__'], ast.Sub: ['__isub__', '__sub__'],
               ast.Div: ['__itruediv__', '__truediv__'], ast.Mult: ['__imul__', '__mul__']}


class CallGraph:
    def __init__(self, prog, cfg=None):
        self.prog = prog
        self.cfg = cfg
        self.funcs = {}          # id -> FunctionDef
        self.mod_of = {}
        self.methods_by_name = {}   # name -> [id]
        self.class_bases = {}       # (mod, cls) -> [(mod, cls)]
        self.subclasses = {}
        self.imports = {}           # mod -> {local name: ('module', name) | ('object', mod, name)}
        self.field_funcs = {}       # (mod, cls) -> {field: set(func id)}
        self.edges = {}             # id -> set(id)
        self.sites = {}             # id -> [(node, targets, kind)]
        self.stats = {'resolved': 0, 'cha_fallback': 0, 'external': 0, 'value_refs': 0,
                      'operator_edges': 0}
        self._index()
        self._build()

    # ----------------------------------------------------------------- index
    def _index(self):
        for mod in self.prog.modules.values():
            self.imports[mod.name] = self._imports_of(mod)
            for qual, fn in mod.funcs.items():
                fid = (mod.name, qual)
                self.funcs[fid] = fn
                self.mod_of[fid] = mod
                cls = mod.func_class.get(qual)
                if cls is not None and qual == cls + '.' + fn.name:
                    self.methods_by_name.setdefault(fn.name, []).append(fid)
        for mod in self.prog.modules.values():
            for cname, cls in mod.classes.items():
                bases = []
                for b in cls.bases:
                    ref = self._resolve_class_ref(mod, b)
                    if ref is not None:
                        bases.append(ref)
                self.class_bases[(mod.name, cname)] = bases
        for key, bases in self.class_bases.items():
            for b in bases:
                self.subclasses.setdefault(b, []).append(key)
        # function-valued fields
        for mod in self.prog.modules.values():
            for cname in mod.classes:
                init = mod.funcs.get(cname + '.__init__')
                if init is None:
                    continue
                for node in walk_no_nested(init):
                    if isinstance(node, ast.Assign) and len(node.targets) == 1:
                        tgt = node.targets[0]
                        if isinstance(tgt, ast.Attribute) and dotted(tgt.value) == 'self':
                            for val in self._func_values(mod, cname, node.value):
                                self.field_funcs.setdefault((mod.name, cname), {}) \
                                    .setdefault(tgt.attr, set()).add(val)

    def _imports_of(self, mod):
        table = {}
        for node in ast.walk(mod.tree):
            if isinstance(node, ast.Import):
                for alias in node.names:
                    if not alias.name.startswith('propka'):
                        continue
                    if alias.asname:
                        table[alias.asname] = ('module', alias.name)
                    else:
                        # `import propka.x` binds the top-level name `propka`
                        table['propka'] = ('module', 'propka')
            elif isinstance(node, ast.ImportFrom):
                base = node.module or ''
                if node.level:
                    base = 'propka' + ('.' + base if base else '')
                if not base.startswith('propka'):
                    continue
                for alias in node.names:
                    name = alias.asname or alias.name
                    sub = base.split('.', 1)[1] if '.' in base else None
                    if sub is None:
                        # from propka import x / from . import x -> module
                        table[name] = ('module', 'propka.' + alias.name)
                    else:
                        table[name] = ('object', sub, alias.name)
        return table

    def _resolve_class_ref(self, mod, node):
        name = dotted(node)
        if name is None:
            return None
        if name in mod.classes:
            return (mod.name, name)
        imp = self.imports[mod.name].get(name.split('.')[0])
        if imp and imp[0] == 'object' and '.' not in name:
            m2 = self.prog.modules.get(imp[1])
            if m2 and imp[2] in m2.classes:
                return (imp[1], imp[2])
        if '.' in name:
            target = self._module_attr(mod, name)
            if target and target[0] == 'class':
                return target[1]
        return None

    def _module_attr(self, mod, name):
        """Resolve ``a.b.c`` where a prefix names a propka module."""
        parts = name.split('.')
        imp = self.imports[mod.name].get(parts[0])
        modname, rest = None, None
        if imp and imp[0] == 'module':
            full = imp[1].split('.')
            # 'import propka.calculations' binds 'propka'
            if parts[0] == 'propka' and len(parts) >= 3:
                modname, rest = parts[1], parts[2:]
            elif len(full) == 2 and parts[0] != 'propka':
                modname, rest = full[1], parts[1:]
        if modname is None or modname not in self.prog.modules or not rest:
            return None
        m2 = self.prog.modules[modname]
        qual = '.'.join(rest)
        if qual in m2.funcs:
            return ('func', (modname, qual))
        if qual in m2.classes:
            return ('class', (modname, qual))
        return None

    def mro(self, key):
        res, todo = [], [key]
        while todo:
            cur = todo.pop(0)
            if cur in res:
                continue
            res.append(cur)
            todo.extend(self.class_bases.get(cur, []))
        return res

    def all_subclasses(self, key):
        res, todo = [], list(self.subclasses.get(key, []))
        while todo:
            cur = todo.pop()
            if cur in res:
                continue
            res.append(cur)
            todo.extend(self.subclasses.get(cur, []))
        return res

    def lookup_method(self, key, name, with_overrides=True):
        res = []
        for cls in self.mro(key):
            fid = (cls[0], cls[1] + '.' + name)
            if fid in self.funcs:
                res.append(fid)
                break
        if with_overrides:
            for cls in self.all_subclasses(key):
                fid = (cls[0], cls[1] + '.' + name)
                if fid in self.funcs and fid not in res:
                    res.append(fid)
        return res

    def lookup_field_funcs(self, key, name):
        res = set()
        for cls in self.mro(key) + self.all_subclasses(key):
            res |= self.field_funcs.get(cls, {}).get(name, set())
        return res

    def _func_values(self, mod, cls, node):
        """Function ids denoted by an expression used as a value."""
        res = set()
        if isinstance(node, ast.Dict):
            for v in node.values:
                res |= self._func_values(mod, cls, v)
            return res
        if isinstance(node, (ast.List, ast.Tuple)):
            for v in node.elts:
                res |= self._func_values(mod, cls, v)
            return res
        name = dotted(node)
        if name is None:
            return res
        if name.startswith('self.') and cls is not None and name.count('.') == 1:
            for fid in self.lookup_method((mod.name, cls), name[5:]):
                res.add(fid)
            return res
        tgt = self._resolve_name(mod, name)
        if tgt and tgt[0] == 'func':
            res.add(tgt[1])
        return res

    def _resolve_name(self, mod, name, scope=None):
        if '.' not in name:
            if scope is not None:
                fid = (mod.name, scope + '.<locals>.' + name)
                if fid in self.funcs:
                    return ('func', fid)
            if name in mod.funcs and '.' not in name:
                return ('func', (mod.name, name))
            if name in mod.classes:
                return ('class', (mod.name, name))
            imp = self.imports[mod.name].get(name)
            if imp and imp[0] == 'object':
                m2 = self.prog.modules.get(imp[1])
                if m2 is not None:
                    if imp[2] in m2.funcs:
                        return ('func', (imp[1], imp[2]))
                    if imp[2] in m2.classes:
                        return ('class', (imp[1], imp[2]))
                    return ('value', (imp[1], imp[2]))
            return None
        head, _, attr = name.rpartition('.')
        tgt = self._module_attr(mod, name)
        if tgt is not None:
            return tgt
        cref = self._resolve_name(mod, head, scope) if '.' not in head else self._module_attr(mod, head)
        if cref and cref[0] == 'class':
            fids = self.lookup_method(cref[1], attr, with_overrides=False)
            if fids:
                return ('func', fids[0])
        return None

    # ----------------------------------------------------------------- build
    def _class_init(self, key):
        fids = self.lookup_method(key, '__init__', with_overrides=False)
        return fids

    def _add(self, src, tgt):
        self.edges.setdefault(src, set()).add(tgt)

    def _build(self):
        group_classes = None
        for fid, fn in self.funcs.items():
            mod = self.mod_of[fid]
            cls = mod.func_class.get(fid[1])
            scope = fid[1]
            self.edges.setdefault(fid, set())
            sites = self.sites.setdefault(fid, [])
            called_nodes = set()
            for node in self._walk_body(fn):
                if isinstance(node, ast.Call):
                    called_nodes.add(id(node.func))
                    targets, kind = self._resolve_call(mod, cls, scope, fn, node)
                    sites.append((node, targets, kind))
                    self.stats[kind if kind in self.stats else 'resolved'] += 1
                    for t in targets:
                        self._add(fid, t)
            # values, operators
            for node in self._walk_body(fn):
                if isinstance(node, (ast.Name, ast.Attribute)) and id(node) not in called_nodes \
                        and isinstance(getattr(node, 'ctx', None), ast.Load):
                    par = getattr(node, '_parent', None)
                    if isinstance(par, ast.Attribute):
                        continue
                    name = dotted(node)
                    if name is None:
                        continue
                    for t in self._func_values(mod, cls, node):
                        if t != fid:
                            self._add(fid, t)
                            self.stats['value_refs'] += 1
                elif isinstance(node, ast.BinOp) and type(node.op) in OP_DUNDERS:
                    for d in OP_DUNDERS[type(node.op)]:
                        for t in self.methods_by_name.get(d, []):
                            self._add(fid, t)
                            self.stats['operator_edges'] += 1
                elif isinstance(node, ast.AugAssign) and type(node.op) in AUG_DUNDERS:
                    for d in AUG_DUNDERS[type(node.op)]:
                        for t in self.methods_by_name.get(d, []):
                            self._add(fid, t)
                            self.stats['operator_edges'] += 1
                elif isinstance(node, ast.Compare):
                    for op in node.ops:
                        if isinstance(op, (ast.Eq, ast.NotEq, ast.In, ast.NotIn)):
                            for t in self.methods_by_name.get('__eq__', []):
                                self._add(fid, t)
                elif isinstance(node, ast.UnaryOp) and isinstance(node.op, ast.USub):
                    for t in self.methods_by_name.get('__neg__', []):
                        self._add(fid, t)

    def _walk_body(self, fn):
        """Nodes of fn excluding nested defs but including lambdas."""
        stack = list(reversed(list(ast.iter_child_nodes(fn))))
        while stack:
            cur = stack.pop()
            yield cur
            if isinstance(cur, (ast.FunctionDef, ast.AsyncFunctionDef, ast.ClassDef)):
                continue
            stack.extend(reversed(list(ast.iter_child_nodes(cur))))

    def _resolve_call(self, mod, cls, scope, fn, call):
        func = call.func
        name = dotted(func)
        # super().m(...)
        if isinstance(func, ast.Attribute) and isinstance(func.value, ast.Call) \
                and dotted(func.value.func) == 'super' and cls is not None:
            res = []
            for base in self.class_bases.get((mod.name, cls), []):
                res.extend(self.lookup_method(base, func.attr, with_overrides=False))
            return res, 'resolved'
        if name is not None:
            if '.' not in name:
                tgt = self._resolve_name(mod, name, scope)
                if tgt is None and scope and '.<locals>.' in scope:
                    outer = scope.split('.<locals>.')[0]
                    tgt = self._resolve_name(mod, name, outer)
                if tgt is not None:
                    if tgt[0] == 'func':
                        return [tgt[1]], 'resolved'
                    if tgt[0] == 'class':
                        return self._class_init(tgt[1]), 'resolved'
                # local variable holding a class/function: globals()[...] idiom and
                # getattr(module, name)
                dyn = self._dynamic_local(mod, fn, name)
                if dyn is not None:
                    return dyn, 'resolved'
                return [], 'external'
            head, _, attr = name.rpartition('.')
            if head == 'self' and cls is not None:
                key = (mod.name, cls)
                meths = self.lookup_method(key, attr)
                if meths:
                    return meths, 'resolved'
                fields = self.lookup_field_funcs(key, attr)
                if fields:
                    return sorted(fields), 'resolved'
            tgt = self._resolve_name(mod, name, scope)
            if tgt is not None:
                if tgt[0] == 'func':
                    return [tgt[1]], 'resolved'
                if tgt[0] == 'class':
                    return self._class_init(tgt[1]), 'resolved'
        # class-hierarchy analysis by method name
        if isinstance(func, ast.Attribute):
            cands = [c for c in self.methods_by_name.get(func.attr, [])
                     if self._arity_ok(self.funcs[c], call, bound=True)]
            if cands:
                return list(cands), 'cha_fallback'
            # function-valued fields on other receivers (version.desolvation_model(...))
            fields = set()
            for key, tbl in self.field_funcs.items():
                fields |= tbl.get(func.attr, set())
            if fields:
                return sorted(fields), 'cha_fallback'
        if isinstance(func, ast.Subscript):
            # self.protonation_methods[n](atom): dict of bound methods
            base = dotted(func.value)
            if base and base.startswith('self.') and cls is not None:
                fields = self.lookup_field_funcs((mod.name, cls), base[5:])
                if fields:
                    return sorted(fields), 'resolved'
        return [], 'external'

    @staticmethod
    def _arity_ok(fn, call, bound):
        """Could ``call`` bind to ``fn`` (arity and keyword names)?"""
        if any(isinstance(a, ast.Starred) for a in call.args) or \
                any(kw.arg is None for kw in call.keywords):
            return True
        args = fn.args
        pos = [a.arg for a in args.posonlyargs + args.args]
        is_static = any(dotted(d) == 'staticmethod' for d in fn.decorator_list)
        if bound and not is_static and pos:
            pos = pos[1:]
        n_def = len(args.defaults)
        required = len(pos) - n_def
        kwnames = set(pos) | {a.arg for a in args.kwonlyargs}
        npos = len(call.args)
        if npos > len(pos) and args.vararg is None:
            return False
        given_kw = {kw.arg for kw in call.keywords}
        if args.kwarg is None and not given_kw <= kwnames:
            return False
        covered = set(pos[:npos]) | given_kw
        missing = [p for p in pos[:required] if p not in covered]
        return not missing

    def _dynamic_local(self, mod, fn, name):
        for node in walk_no_nested(fn):
            if isinstance(node, ast.Assign) and any(
                    isinstance(t, ast.Name) and t.id == name for t in node.targets):
                val = node.value
                if isinstance(val, ast.Subscript) and isinstance(val.value, ast.Call) \
                        and dotted(val.value.func) == 'globals':
                    # globals()[<X>Group]: every Group subclass of this module
                    res = []
                    for cname in mod.classes:
                        if cname.endswith('Group'):
                            res.extend(self._class_init((mod.name, cname)))
                    return sorted(set(res))
                if isinstance(val, ast.Call) and dotted(val.func) == 'getattr' and val.args:
                    tgt = dotted(val.args[0])
                    if tgt and tgt.startswith('propka.'):
                        m2 = self.prog.modules.get(tgt.split('.')[1])
                        if m2 is not None:
                            res = []
                            for cname in m2.classes:
                                res.extend(self._class_init((m2.name, cname)))
                            return sorted(set(res))
        # a function taken out of a module-level table: `f = TABLE[k]`,
        # `f = TABLE.get(k)`, `entry = TABLE.get(k); f, flag = entry`: every
        # function named in the table's display is a possible callee
        def table_of(expr, depth=0):
            if depth > 3:
                return None
            if isinstance(expr, ast.Subscript):
                return table_of(expr.value, depth + 1) if not isinstance(expr.value, ast.Name) else (
                    expr.value.id if self._module_table(mod, expr.value.id) is not None
                    else from_local(expr.value.id, depth + 1))
            if isinstance(expr, ast.Call) and isinstance(expr.func, ast.Attribute) and expr.func.attr == 'get' \
                    and isinstance(expr.func.value, ast.Name):
                return expr.func.value.id if self._module_table(mod, expr.func.value.id) is not None else None
            if isinstance(expr, ast.Name):
                return from_local(expr.id, depth + 1)
            return None

        def from_local(nm, depth):
            if depth > 3:
                return None
            for node in walk_no_nested(fn):
                if isinstance(node, ast.Assign) and any(
                        isinstance(t, ast.Name) and t.id == nm for tg in node.targets for t in ast.walk(tg)):
                    got = table_of(node.value, depth)
                    if got is not None:
                        return got
            return None
        tbl = from_local(name, 0)
        if tbl is not None:
            res = []
            for fname in self._module_table(mod, tbl):
                tgt = self._resolve_name(mod, fname, None)
                if tgt is not None and tgt[0] == 'func':
                    res.append(tgt[1])
                elif tgt is not None and tgt[0] == 'class':
                    res.extend(self._class_init(tgt[1]))
            if res:
                return sorted(set(res))
        return None

    def _module_table(self, mod, name):
        """Names that occur in the display bound to the module-level ``name``
        (a dict, tuple or list literal), or None."""
        for st in mod.tree.body:
            tgt = st.targets[0] if isinstance(st, ast.Assign) and len(st.targets) == 1 else (
                st.target if isinstance(st, ast.AnnAssign) else None)
            if isinstance(tgt, ast.Name) and tgt.id == name and isinstance(
                    getattr(st, 'value', None), (ast.Dict, ast.Tuple, ast.List)):
                return sorted({n.id for n in ast.walk(st.value) if isinstance(n, ast.Name)})
        return None

    # ------------------------------------------------------------ queries
    def reachable(self, entries, exclude=None):
        exclude = exclude or (lambda fid: False)
        seen, todo = set(), [e for e in entries if e in self.funcs]
        missing = [e for e in entries if e not in self.funcs]
        if missing:
            raise AnalysisError('call graph: entry point(s) missing: %s' % missing)
        while todo:
            cur = todo.pop()
            if cur in seen or exclude(cur):
                continue
            seen.add(cur)
            todo.extend(self.edges.get(cur, ()))
        return seen

    def callers_of(self, fid):
        return sorted(src for src, tgts in self.edges.items() if fid in tgts)

    def path(self, src, dst, exclude=None):
        """Shortest call path src -> dst as a list of ids (or None)."""
        exclude = exclude or (lambda fid: False)
        prev = {src: None}
        todo = [src]
        while todo:
            cur = todo.pop(0)
            if cur == dst:
                res = []
                while cur is not None:
                    res.append(cur)
                    cur = prev[cur]
                return list(reversed(res))
            for nxt in sorted(self.edges.get(cur, ())):
                if nxt not in prev and not exclude(nxt):
                    prev[nxt] = cur
                    todo.append(nxt)
        return None


DEAD_VERSION_CLASSES = ('SimpleHB', 'ElementBasedLigandInteractions', 'Propka30')


def versionA_exclude(fid):
    """Functions that cannot run under the shipped configuration: methods of
    the Version subclasses other than VersionA (they read Parameters fields
    that do not exist), the 3.0-style protonation and the marvin ligand path."""
    mod, qual = fid
    if mod == 'version' and qual.split('.')[0] in DEAD_VERSION_CLASSES:
        return True
    if mod == 'hydrogens' and (qual.endswith('_30_style') or qual in (
            'add_arg_hydrogen', 'add_his_hydrogen', 'add_trp_hydrogen', 'add_amd_hydrogen',
            'add_backbone_hydrogen', 'protonate_direction', 'protonate_average_direction',
            'protonate_sp2', 'make_new_h')):
        return True
    if mod == 'ligand_pka_values':
        return True
    if mod == 'group' and qual in ('is_ligand_group_by_marvin_pkas',
                                   'TitratableLigandGroup.__init__',
                                   'NonTitratableLigandGroup.__init__'):
        return True
    if mod == 'version' and qual == 'Version.empty_function':
        return True
    return False


ENTRY_POINTS = [('run', 'single'), ('run', 'main')]


def build(prog, cfg=None):
    return CallGraph(prog, cfg)
