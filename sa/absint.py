"""Interval + monotonicity abstract evaluation of numeric expression trees.

An abstract value is (lo, hi, mono): a closed interval over the extended reals
and the monotonicity of the expression in one designated variable
('const', 'inc', 'dec', 'any').  Expressions are first expanded by
sa.symexpand (forward substitution), then evaluated here.  A few recognised
idioms carry their own transfer function (each justified in a comment).
Unknown constructs evaluate to TOP = (-inf, inf, 'any'); clients must treat a
verdict that needs more than TOP as undecided (exit 2), never as a pass.
"""
import ast
import math

from .astutil import norm, dotted, call_name

INF = math.inf


class AV:
    __slots__ = ('lo', 'hi', 'mono')

    def __init__(self, lo, hi, mono='const'):
        self.lo, self.hi, self.mono = lo, hi, mono

    def __repr__(self):
        return 'AV[%g, %g, %s]' % (self.lo, self.hi, self.mono)

    @property
    def is_top(self):
        return self.lo == -INF and self.hi == INF and self.mono == 'any'

    def within(self, lo, hi, eps=1e-9):
        return self.lo >= lo - eps and self.hi <= hi + eps

    @property
    def sign(self):
        if self.lo == 0 and self.hi == 0:
            return '0'
        if self.lo >= 0:
            return '>=0' if self.lo == 0 else '>0'
        if self.hi <= 0:
            return '<=0' if self.hi == 0 else '<0'
        return '?'


TOP = AV(-INF, INF, 'any')


def const(c):
    return AV(c, c, 'const')


def _flip(m):
    return {'inc': 'dec', 'dec': 'inc'}.get(m, m)


def _add_mono(a, b):
    if a == 'const':
        return b
    if b == 'const':
        return a
    return a if a == b else 'any'


def _mul(x, y):
    if (x == 0 and abs(y) == INF) or (y == 0 and abs(x) == INF):
        return 0.0
    return x * y


def neg(a):
    return AV(-a.hi, -a.lo, _flip(a.mono))


def add(a, b):
    return AV(a.lo + b.lo, a.hi + b.hi, _add_mono(a.mono, b.mono))


def sub(a, b):
    return add(a, neg(b))


def mul(a, b):
    prods = [_mul(a.lo, b.lo), _mul(a.lo, b.hi), _mul(a.hi, b.lo), _mul(a.hi, b.hi)]
    lo, hi = min(prods), max(prods)
    if a.mono == 'const' and b.mono == 'const':
        mono = 'const'
    elif a.mono == 'const' or b.mono == 'const':
        c, v = (a, b) if a.mono == 'const' else (b, a)
        if c.lo >= 0:
            mono = v.mono
        elif c.hi <= 0:
            mono = _flip(v.mono)
        else:
            mono = 'any'
        if c.lo == 0 and c.hi == 0:
            mono = 'const'
    elif a.lo >= 0 and b.lo >= 0 and a.mono == b.mono:
        mono = a.mono
    else:
        mono = 'any'
    return AV(lo, hi, mono)


def recip(b):
    if b.lo > 0 or b.hi < 0:
        lo = 0.0 if abs(b.hi) == INF else 1.0 / b.hi
        hi = (INF if b.lo > 0 else -INF) if b.lo == 0 else (1.0 / b.lo if b.lo != 0 else INF)
        if b.hi < 0:
            lo = 1.0 / b.hi if b.hi != 0 else -INF
            hi = 0.0 if abs(b.lo) == INF else 1.0 / b.lo
        lo, hi = min(lo, hi), max(lo, hi)
        return AV(lo, hi, _flip(b.mono))
    if b.lo == 0 and b.hi > 0:
        return AV(0.0 if b.hi == INF else 1.0 / b.hi, INF, _flip(b.mono))
    return TOP


def div(a, b):
    r = recip(b)
    if r.is_top:
        return TOP
    return mul(a, r)


class Evaluator:
    """Evaluate expression ASTs abstractly.

    env: {normalised text: AV} for names / attribute chains / whole
    sub-expressions (checked first, so a client may pin any sub-term);
    var: the designated variable name (monotonicity is tracked w.r.t. it).
    consts: {name: number} for module constants.
    """

    def __init__(self, env=None, var=None, consts=None, summaries=None):
        self.env = dict(env or {})
        self.var = var
        self.consts = dict(consts or {})
        self.summaries = dict(summaries or {})   # callee name -> function(args AVs, call) -> AV
        self.unknown = []

    def ev(self, node):
        text = norm(node)
        if text in self.env:
            return self.env[text]
        meth = getattr(self, 'ev_' + type(node).__name__, None)
        if meth is None:
            self.unknown.append(text)
            return TOP
        return meth(node)

    def ev_Constant(self, node):
        if isinstance(node.value, bool):
            return const(int(node.value))
        if isinstance(node.value, (int, float)):
            return const(node.value)
        self.unknown.append(repr(node.value))
        return TOP

    def ev_Name(self, node):
        if node.id == self.var:
            return AV(-INF, INF, 'inc')
        if node.id in self.consts:
            return const(self.consts[node.id])
        self.unknown.append(node.id)
        return TOP

    def ev_Attribute(self, node):
        name = dotted(node)
        if name in self.consts:
            return const(self.consts[name])
        if name == 'math.pi':
            return const(math.pi)
        self.unknown.append(name or norm(node))
        return TOP

    def ev_UnaryOp(self, node):
        v = self.ev(node.operand)
        if isinstance(node.op, ast.USub):
            return neg(v)
        if isinstance(node.op, ast.UAdd):
            return v
        return TOP

    def ev_BinOp(self, node):
        op = node.op
        if isinstance(op, ast.Sub) and norm(node.left) == norm(node.right):
            return const(0.0)            # e - e == 0 for any finite e
        if isinstance(op, ast.Div):
            idiom = self._x_over_one_plus_x(node)
            if idiom is not None:
                return idiom
        a, b = self.ev(node.left), self.ev(node.right)
        if isinstance(op, ast.Add):
            return add(a, b)
        if isinstance(op, ast.Sub):
            return sub(a, b)
        if isinstance(op, ast.Mult):
            if norm(node.left) == norm(node.right):     # e*e >= 0
                m = max(abs(a.lo), abs(a.hi))
                lo = 0.0 if a.lo <= 0 <= a.hi else min(a.lo * a.lo, a.hi * a.hi)
                return AV(lo, _mul(m, m), 'any' if a.mono != 'const' else 'const')
            return mul(a, b)
        if isinstance(op, ast.Div):
            return div(a, b)
        if isinstance(op, ast.Pow):
            return self._pow(a, b)
        return TOP

    def _pow(self, a, b):
        # c ** e with constant base c > 1: increasing in e, positive
        if a.mono == 'const' and a.lo == a.hi and a.lo > 1:
            c = a.lo
            lo = 0.0 if b.lo == -INF else c ** b.lo
            try:
                hi = INF if b.hi == INF else c ** b.hi
            except OverflowError:
                hi = INF
            return AV(lo, hi, b.mono)
        # e ** 2
        if b.mono == 'const' and b.lo == b.hi == 2:
            m = max(abs(a.lo), abs(a.hi))
            lo = 0.0 if a.lo <= 0 <= a.hi else min(a.lo ** 2, a.hi ** 2)
            mono = a.mono if a.lo >= 0 else (_flip(a.mono) if a.hi <= 0 else
                                             ('const' if a.mono == 'const' else 'any'))
            return AV(lo, _mul(m, m), mono)
        if b.mono == 'const' and b.lo == b.hi == 0.5 and a.lo >= 0:
            return AV(math.sqrt(a.lo), INF if a.hi == INF else math.sqrt(a.hi), a.mono)
        return TOP

    def _x_over_one_plus_x(self, node):
        """x / (1 + x) with x > 0: value in (0, 1), increasing in x
        (derivative 1/(1+x)^2 > 0), so it inherits the monotonicity of x."""
        den = node.right
        if isinstance(den, ast.BinOp) and isinstance(den.op, ast.Add):
            x = norm(node.left)
            parts = [den.left, den.right]
            ones = [p for p in parts if isinstance(p, ast.Constant) and p.value in (1, 1.0)]
            xs = [p for p in parts if norm(p) == x]
            if len(ones) == 1 and len(xs) == 1:
                xv = self.ev(node.left)
                if xv.lo >= 0:
                    lo = xv.lo / (1 + xv.lo)
                    hi = 1.0 if xv.hi == INF else xv.hi / (1 + xv.hi)
                    return AV(lo, hi, xv.mono)
        return None

    def ev_Call(self, node):
        name = call_name(node) or ''
        args = [self.ev(a) for a in node.args]
        if name in self.summaries:
            return self.summaries[name](args, node)
        if name == 'abs' and len(args) == 1:
            a = args[0]
            if a.lo >= 0:
                return a
            if a.hi <= 0:
                return neg(a)
            return AV(0.0, max(-a.lo, a.hi), 'any' if a.mono != 'const' else 'const')
        if name in ('float', 'int') and len(args) == 1:
            return args[0] if name == 'float' else AV(
                math.floor(args[0].lo) if abs(args[0].lo) != INF else args[0].lo,
                math.ceil(args[0].hi) if abs(args[0].hi) != INF else args[0].hi, args[0].mono)
        if name == 'min' and len(args) >= 2:
            lo = min(a.lo for a in args)
            hi = min(a.hi for a in args)
            monos = {a.mono for a in args if a.mono != 'const'}
            return AV(lo, hi, 'const' if not monos else (monos.pop() if len(monos) == 1 else 'any'))
        if name == 'max' and len(args) >= 2:
            lo = max(a.lo for a in args)
            hi = max(a.hi for a in args)
            monos = {a.mono for a in args if a.mono != 'const'}
            return AV(lo, hi, 'const' if not monos else (monos.pop() if len(monos) == 1 else 'any'))
        if name == 'math.sqrt' and len(args) == 1 and args[0].lo >= 0:
            a = args[0]
            return AV(math.sqrt(a.lo), INF if a.hi == INF else math.sqrt(a.hi), a.mono)
        if name == 'math.log10' and len(args) == 1 and args[0].lo > 0:
            a = args[0]
            return AV(math.log10(a.lo), INF if a.hi == INF else math.log10(a.hi), a.mono)
        if name == 'math.pow' and len(args) == 2:
            return self._pow(args[0], args[1])
        self.unknown.append(name + '()')
        return TOP
