"""Tables: propka.cfg reader (mirrors Parameters.parse_line), the field kinds
of the Parameters dataclass, literal tables in the source."""
import ast

from .astutil import dotted, literal, FoldError, norm
from .loader import AnalysisError

KIND_BY_ALIAS = {
    '_T_MATRIX': 'matrix', '_T_PAIR_WISE_MATRIX': 'pairwise',
    '_T_NUMBER_DICTIONARY': 'numdict', '_T_LIST_DICTIONARY': 'listdict',
    '_T_STRING_DICTIONARY': 'strdict', '_T_STRING_LIST': 'strlist',
    '_T_STRING': 'str', '_T_BOOL': 'int', 'int': 'int', 'float': 'float',
    'bool': 'int', 'str': 'str',
}


def parameter_fields(prog):
    """{field: (kind, annotation text, default node)} from the annotated
    class body of parameters.Parameters; plus the un-annotated class-level
    assignments {name: value node}."""
    cls = prog.mod('parameters').cls('Parameters')
    fields, plain = {}, {}
    for node in cls.body:
        if isinstance(node, ast.AnnAssign) and isinstance(node.target, ast.Name):
            ann = norm(node.annotation)
            kind = KIND_BY_ALIAS.get(ann)
            fields[node.target.id] = (kind, ann, node.value)
        elif isinstance(node, ast.Assign):
            for tgt in node.targets:
                if isinstance(tgt, ast.Name):
                    plain[tgt.id] = node.value
    if not fields:
        raise AnalysisError('Parameters has no annotated fields')
    return fields, plain


def field_default(fields, name):
    kind, _ann, node = fields[name]
    if node is None:
        return None
    try:
        return literal(node)
    except FoldError:
        return None


class Cfg:
    """Parsed propka.cfg, by the same rules as Parameters.parse_line:
    strip from '#', split on whitespace, dispatch on the declared kind of the
    first word (undeclared keyword -> float attribute)."""

    def __init__(self, prog):
        self.prog = prog
        self.fields, self.plain = parameter_fields(prog)
        self.rows = []           # (lineno, words)
        self.values = {}
        self.order = {}          # keyword -> list of rows in file order
        self.undeclared = []
        self.bad_rows = []
        for name, (kind, _ann, _node) in self.fields.items():
            if kind in ('numdict', 'listdict', 'strdict'):
                self.values[name] = {}
            elif kind == 'strlist':
                self.values[name] = []
            elif kind == 'matrix':
                self.values[name] = {'keys': [], 'rows': []}
            elif kind == 'pairwise':
                self.values[name] = {'default': (0.0, 0.0), 'pairs': {}, 'rows': []}
            else:
                self.values[name] = field_default(self.fields, name)
        for lineno, raw in enumerate(prog.cfg_text().splitlines(), 1):
            pos = raw.find('#')
            if pos != -1:
                raw = raw[:pos]
            words = raw.split()
            if not words:
                continue
            self.rows.append((lineno, words))
            self.order.setdefault(words[0], []).append((lineno, words))
            self._apply(lineno, words)

    def _apply(self, lineno, words):
        key = words[0]
        if key not in self.fields:
            self.undeclared.append((lineno, key))
            return
        kind = self.fields[key][0]
        try:
            if kind == 'numdict':
                if len(words) != 3:
                    raise ValueError('arity')
                self.values[key][words[1]] = float(words[2])
            elif kind == 'strdict':
                if len(words) != 3:
                    raise ValueError('arity')
                self.values[key][words[1]] = words[2]
            elif kind == 'listdict':
                if len(words) <= 2:
                    raise ValueError('arity')
                self.values[key].setdefault(words[1], []).extend(
                    float(w) for w in words[2:])
            elif kind == 'strlist':
                if len(words) != 2:
                    raise ValueError('arity')
                self.values[key].append(words[1])
            elif kind == 'matrix':
                self.values[key]['keys'].append(words[1])
                self.values[key]['rows'].append((lineno, words[1], words[2:]))
            elif kind == 'pairwise':
                if len(words) == 4 and words[1] == 'default':
                    self.values[key]['default'] = (float(words[2]), float(words[3]))
                else:
                    if len(words) != 5:
                        raise ValueError('arity')
                    val = (float(words[3]), float(words[4]))
                    self.values[key]['pairs'][(words[1], words[2])] = val
                    self.values[key]['pairs'][(words[2], words[1])] = val
                    self.values[key]['rows'].append((lineno, words[1], words[2], val))
            elif kind == 'str':
                if len(words) != 2:
                    raise ValueError('arity')
                self.values[key] = words[1]
            elif kind == 'int':
                if len(words) != 2:
                    raise ValueError('arity')
                self.values[key] = int(words[1])
            else:
                if len(words) != 2:
                    raise ValueError('arity')
                self.values[key] = float(words[1])
        except ValueError as err:
            self.bad_rows.append((lineno, words, str(err)))

    def get(self, name):
        if name not in self.values:
            raise AnalysisError('cfg/Parameters field missing: ' + name)
        return self.values[name]

    def num(self, name):
        val = self.get(name)
        if not isinstance(val, (int, float)):
            raise AnalysisError('cfg field {0} is not numeric: {1!r}'.format(name, val))
        return val

    def matrix_lookup(self, a, b):
        """interaction_matrix.get_value(a, b) under the shipped file."""
        mat = self.get('interaction_matrix')
        table = {}
        keys = []
        for _ln, new, vals in mat['rows']:
            keys.append(new)
            table.setdefault(new, {})
            for i, grp in enumerate(keys):
                if i < len(vals):
                    table.setdefault(grp, {})[new] = vals[i]
                    table[new][grp] = vals[i]
        return table.get(a, {}).get(b)


def self_dict_literals(func):
    """{attr: python value} for ``self.attr = <literal>`` in a function."""
    res = {}
    for node in ast.walk(func):
        if isinstance(node, ast.Assign) and len(node.targets) == 1:
            tgt = node.targets[0]
            if (isinstance(tgt, ast.Attribute) and isinstance(tgt.value, ast.Name)
                    and tgt.value.id == 'self'):
                try:
                    res[tgt.attr] = literal(node.value)
                except FoldError:
                    pass
    return res


def module_constants(mod, numeric_only=False):
    """Module-level NAME = <foldable literal> values (resolved in order, so a
    constant may refer to earlier ones)."""
    from .astutil import fold
    env = {}
    for name, node in mod.module_assigns().items():
        try:
            env[name] = literal(node, env)
            continue
        except FoldError:
            pass
        try:
            env[name] = fold(node, {k: v for k, v in env.items()
                                    if isinstance(v, (int, float))})
        except FoldError:
            pass
    if numeric_only:
        env = {k: v for k, v in env.items()
               if isinstance(v, (int, float)) and not isinstance(v, bool)}
    return env


# PDB fixed columns (0-based, half-open) used by C06/C07/C13/C19
PDB_COLUMNS = [
    ('record', 0, 6), ('serial', 6, 11), ('name', 12, 16), ('altloc', 16, 17),
    ('resname', 17, 20), ('chain', 21, 22), ('resseq', 22, 26),
    ('icode', 26, 27), ('x', 30, 38), ('y', 38, 46), ('z', 46, 54),
    ('occupancy', 54, 60), ('bfactor', 60, 66), ('element', 76, 78),
    ('charge', 78, 80),
]


PDB_GAPS = [('gap11', 11, 12), ('gap20', 20, 21), ('gap27', 27, 30),
            ('gap66', 66, 76)]


def columns_of_slice(lo, hi, gaps=True):
    """Names of PDB fields (and unassigned gaps) touched by line[lo:hi];
    hi None = to the end of the record."""
    if hi is None:
        hi = 80
    cols = PDB_COLUMNS + (PDB_GAPS if gaps else [])
    return [name for name, a, b in sorted(cols, key=lambda c: c[1])
            if lo < b and hi > a]


def subscript_range(node, env=None):
    """(lo, hi) for ``x[a:b]`` / ``x[i]`` / ``x[:b]`` with constant bounds;
    hi None means open end.  None when not constant."""
    from .astutil import try_fold
    sl = node.slice
    if isinstance(sl, ast.Slice):
        if sl.step is not None:
            return None
        lo = 0 if sl.lower is None else try_fold(sl.lower, env)
        hi = None if sl.upper is None else try_fold(sl.upper, env)
        if lo is None or (sl.upper is not None and hi is None):
            return None
        return (int(lo), None if hi is None else int(hi))
    val = try_fold(sl, env)
    if val is None:
        return None
    return (int(val), int(val) + 1)
