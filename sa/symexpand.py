"""Forward substitution of local definitions (symbolic expansion).

For straight-line/branching numeric code, computes for every program point
the expression each local denotes in terms of parameters, attribute reads and
calls, by substituting reaching definitions.  Where two different definitions
meet, the variable becomes the opaque symbol ``phi_<name>``.  Nothing is
evaluated; this is syntax-tree rewriting.
"""
import ast

from .flow import Analysis
from .astutil import norm, dotted


def clone(node):
    """Structural copy of an AST node (fields only; parent links and
    positions are not followed, unlike copy.deepcopy)."""
    if isinstance(node, ast.AST):
        new = type(node)()
        for field in node._fields:
            if hasattr(node, field):
                setattr(new, field, clone(getattr(node, field)))
        for attr in node._attributes:
            if hasattr(node, attr):
                setattr(new, attr, getattr(node, attr))
        return new
    if isinstance(node, list):
        return [clone(n) for n in node]
    return node


class _Subst(ast.NodeTransformer):
    def __init__(self, env):
        self.env = env

    def visit_Name(self, node):
        if isinstance(node.ctx, ast.Load) and node.id in self.env:
            return clone(self.env[node.id])
        return node

    def visit_Attribute(self, node):
        name = dotted(node)
        if isinstance(node.ctx, ast.Load) and name is not None and name in self.env:
            return clone(self.env[name])
        return self.generic_visit(node)

    def visit_Lambda(self, node):
        return node


def substitute(expr, env):
    return _Subst(env).visit(clone(expr))


class Expand(Analysis):
    """State: tuple of (name, expr text) pairs; exprs kept in a side table."""

    def __init__(self):
        self.table = {}

    def _key(self, expr):
        text = norm(expr)
        self.table.setdefault(text, expr)
        return text

    def initial(self):
        return ()

    def env_of(self, state):
        return {name: self.table[text] for name, text in state}

    def join(self, a, b):
        da, db = dict(a), dict(b)
        res = {}
        for name in set(da) | set(db):
            if da.get(name) == db.get(name):
                res[name] = da[name]
            else:
                res[name] = self._key(ast.Name(id='phi_' + name.replace('.', '__'),
                                               ctx=ast.Load()))
        return tuple(sorted(res.items()))

    def equal(self, a, b):
        return a == b

    def _set(self, state, name, expr):
        d = dict(state)
        d[name] = self._key(expr)
        return tuple(sorted(d.items()))

    def transfer(self, stmt, state):
        env = self.env_of(state)
        if isinstance(stmt, ast.Assign) and len(stmt.targets) == 1:
            tgt = stmt.targets[0]
            val = substitute(stmt.value, env)
            if isinstance(tgt, ast.Name):
                return self._set(state, tgt.id, val)
            if isinstance(tgt, ast.Attribute) and dotted(tgt) is not None:
                return self._set(state, dotted(tgt), val)
            if isinstance(tgt, (ast.Tuple, ast.List)):
                for i, elt in enumerate(tgt.elts):
                    if isinstance(elt, ast.Name):
                        if isinstance(val, (ast.Tuple, ast.List)) and len(val.elts) == len(tgt.elts):
                            state = self._set(state, elt.id, val.elts[i])
                        else:
                            sub = ast.Subscript(value=val, slice=ast.Constant(i), ctx=ast.Load())
                            state = self._set(state, elt.id, sub)
                return state
        elif isinstance(stmt, ast.AnnAssign) and stmt.value is not None \
                and isinstance(stmt.target, ast.Name):
            return self._set(state, stmt.target.id, substitute(stmt.value, env))
        elif isinstance(stmt, ast.AugAssign) and (isinstance(stmt.target, ast.Name) or (
                isinstance(stmt.target, ast.Attribute) and dotted(stmt.target) is not None)):
            tname = dotted(stmt.target)
            cur = env.get(tname, clone(stmt.target))
            if hasattr(cur, 'ctx'):
                cur.ctx = ast.Load()
            val = ast.BinOp(left=clone(cur), op=stmt.op,
                            right=substitute(stmt.value, env))
            return self._set(state, tname, val)
        self.observe(stmt, state)
        return state

    def bind_loop(self, stmt, state):
        for node in ast.walk(stmt.target):
            if isinstance(node, ast.Name):
                state = self._set(state, node.id,
                                  ast.Name(id='iter_' + node.id, ctx=ast.Load()))
        return state

    def observe(self, stmt, state):
        pass

    def at_return(self, stmt, state):
        return state


def expanded_returns(func):
    """[(Return stmt, expanded value expr)] for every return of ``func``."""
    ana = Expand()
    res = []
    for stmt, state in ana.exit_states(func):
        if stmt is not None and stmt.value is not None:
            res.append((stmt, substitute(stmt.value, ana.env_of(state))))
    return res


def expanded_at(func, targets):
    """Expanded right-hand side for the given statements (Assign/Expr/Return
    nodes of ``func``): {stmt: [expr, ...]} (one per reaching state merge)."""
    hits = {}

    class Probe(Expand):
        def transfer(self, stmt, state):
            if any(stmt is t for t in targets):
                env = self.env_of(state)
                val = stmt.value if hasattr(stmt, 'value') else None
                if val is not None:
                    hits.setdefault(stmt, []).append(substitute(val, env))
            return Expand.transfer(self, stmt, state)

    Probe().exit_states(func)
    return hits
