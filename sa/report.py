"""Obligation bookkeeping, known findings, evidence and replay files."""
import hashlib
import json
import os
import time

from .astutil import short
from .loader import AnalysisError

VERIF = os.path.dirname(os.path.dirname(os.path.abspath(__file__)))


def _load_json(path, default):
    try:
        with open(path, encoding='utf-8') as handle:
            return json.load(handle)
    except FileNotFoundError:
        return default


class Ctx:
    """One run of one property check."""

    def __init__(self, prop, tier, prog, seed=0, root_is_repo=True):
        self.prop = prop
        self.tier = tier
        self.prog = prog
        self.seed = seed
        self.root_is_repo = root_is_repo
        self.start = time.time()
        self.obligations = []   # dicts
        self.notes = {}
        self.assumptions = []
        self.rule_counts = {}
        self.selftest = None
        known = _load_json(os.path.join(VERIF, 'known_findings.json'), {'findings': []})
        self.known = [k for k in known.get('findings', [])
                      if k.get('property') == prop]
        self.triage_used = set()

    # ------------------------------------------------------------------ API
    def ob(self, rule, key, ok, what, mod=None, node=None, detail=None, func=None):
        """Record one obligation.  ``key`` identifies the instance (rule +
        construct, never a line number)."""
        rec = {'rule': rule, 'key': key, 'ok': bool(ok), 'what': what}
        if mod is not None:
            rec['file'] = mod.path
            rec['module'] = mod.name
        if node is not None:
            rec['line'] = getattr(node, 'lineno', 0)
            rec['construct'] = short(node, 200)
            if func is None:
                from .astutil import enclosing_function
                fn = node if hasattr(node, '_qualname') else enclosing_function(node)
                while fn is not None and not hasattr(fn, '_qualname'):
                    fn = enclosing_function(fn)
                if fn is not None:
                    func = fn._qualname
        if func is not None:
            rec['function'] = func
        if detail is not None:
            rec['detail'] = detail
        self.obligations.append(rec)
        self.rule_counts[rule] = self.rule_counts.get(rule, 0) + 1
        return bool(ok)

    def note(self, key, value):
        self.notes[key] = value

    def assume(self, text):
        if text not in self.assumptions:
            self.assumptions.append(text)

    def need(self, rule, minimum):
        """Fail closed when a rule matched fewer instances than confirmed by
        hand (the rule has gone blind)."""
        got = self.rule_counts.get(rule, 0)
        if got < minimum:
            raise AnalysisError(
                'rule {0} matched {1} instance(s), expected at least {2}: '
                'the rule has gone blind'.format(rule, got, minimum))

    def triage(self, table, key):
        """Reason string if (table, key) is a reviewed instance, else None."""
        data = _load_json(os.path.join(VERIF, 'triage', table + '.json'), {})
        entries = data.get('entries', {})
        if key in entries:
            self.triage_used.add((table, key))
            return entries[key]
        return None

    def triage_table(self, table):
        data = _load_json(os.path.join(VERIF, 'triage', table + '.json'), {})
        return data.get('entries', {})

    # -------------------------------------------------------------- results
    def _is_known(self, rec):
        for k in self.known:
            if k.get('status', 'open') != 'open':
                continue
            if k.get('rule') == rec['rule'] and k.get('key') == rec['key']:
                return k
        return None

    def finish(self, only_key=None):
        violated = [o for o in self.obligations if not o['ok']]
        if only_key is not None:
            violated = [o for o in violated if o['key'] == only_key]
        known_hits, fresh = [], []
        for rec in violated:
            k = self._is_known(rec)
            if k is not None:
                known_hits.append((rec, k))
            else:
                fresh.append(rec)
        lines = []
        for rec, k in known_hits:
            lines.append('KNOWN-FINDING: property={0} {1} [{2} {3}] {4}'.format(
                self.prop, k.get('id', ''), rec['rule'], rec['key'],
                k.get('what_fails', rec['what'])))
        replay_dir = os.path.join(VERIF, 'replay', self.prop)
        for rec in fresh:
            os.makedirs(replay_dir, exist_ok=True)
            digest = hashlib.sha1(
                (rec['rule'] + '|' + rec['key']).encode()).hexdigest()[:12]
            path = os.path.join(replay_dir, digest + '.json')
            payload = dict(rec)
            payload['property'] = self.prop
            payload['root'] = self.prog.root
            with open(path, 'w', encoding='utf-8') as handle:
                json.dump(payload, handle, indent=1, sort_keys=True)
            rel = os.path.relpath(path, VERIF)
            lines.append('VIOLATION property={0} replay={1}'.format(self.prop, rel))
            lines.append('  rule={0} key={1}'.format(rec['rule'], rec['key']))
            lines.append('  at {0}:{1} in {2}'.format(
                rec.get('file', '?'), rec.get('line', '?'), rec.get('function', '?')))
            lines.append('  {0}'.format(rec['what']))
            if 'construct' in rec:
                lines.append('  construct: {0}'.format(rec['construct']))
            if 'detail' in rec:
                lines.append('  detail: {0}'.format(rec['detail']))
        self._write_evidence(violated, known_hits, fresh)
        total = len(self.obligations)
        lines.append('{0} [{1}] obligations={2} discharged={3} known={4} violations={5} '
                     'wall={6:.2f}s'.format(
                         self.prop, self.tier, total, total - len(violated),
                         len(known_hits), len(fresh), time.time() - self.start))
        print('\n'.join(lines))
        return 1 if fresh else 0

    def _write_evidence(self, violated, known_hits, fresh):
        if not self.root_is_repo:
            return
        total = len(self.obligations)
        distinct = len({(o['rule'], o['key']) for o in self.obligations})
        samples = []
        seen_rules = set()
        for o in self.obligations:
            if o['rule'] in seen_rules:
                continue
            seen_rules.add(o['rule'])
            samples.append({k: o[k] for k in
                            ('rule', 'key', 'ok', 'what', 'module', 'function',
                             'line', 'construct') if k in o})
        stale = []
        for table in sorted({t for t, _ in self.triage_used} | set(self._triage_tables())):
            entries = self.triage_table(table)
            for key in entries:
                if (table, key) not in self.triage_used:
                    stale.append({'table': table, 'key': key})
        coverage = {
            'explanation': (
                'Static analysis of the current source tree (ast only; propka is '
                'neither imported nor executed). Each obligation is one rule '
                'instance (rule id + construct key) located in the parsed program '
                'and decided from its syntax tree, control/data flow, or from the '
                'parsed propka.cfg tables. See DESIGN.md section 4 for the rules '
                'of this property and what they do not decide.'),
            'obligations': total,
            'discharged': total - len(violated),
            'evaluations': max(total, 1),
            'distinct_nontrivial': distinct,
            'rule': 'one evaluation per rule instance; distinct = distinct (rule, '
                    'construct key) pairs; an instance is non-trivial because it '
                    'is anchored in a construct found in the tree on this run',
            'samples': samples[:40],
            'per_rule': dict(sorted(self.rule_counts.items())),
            'known_findings': [
                {'id': k.get('id'), 'rule': rec['rule'], 'key': rec['key']}
                for rec, k in known_hits],
            'violated': [{'rule': r['rule'], 'key': r['key'], 'what': r['what']}
                         for r in fresh],
            'program': self.prog.stats(),
            'notes': self.notes,
            'stale_triage': stale,
            'exhaustive': bool(self.notes.get('exhaustive', False)),
        }
        if self.selftest is not None:
            coverage['selftest'] = self.selftest
        evidence = {
            'property_id': self.prop,
            'tier': self.tier,
            'seed': int(self.seed),
            'level': 'other',
            'coverage': coverage,
            'assumptions': self.assumptions,
            'wall_s': round(time.time() - self.start, 3),
            'violations': len(fresh),
        }
        os.makedirs(os.path.join(VERIF, 'evidence'), exist_ok=True)
        path = os.path.join(VERIF, 'evidence', self.prop + '.json')
        with open(path, 'w', encoding='utf-8') as handle:
            json.dump(evidence, handle, indent=1, sort_keys=True, default=str)

    def _triage_tables(self):
        prefix = self.prop.lower() + '_'
        tdir = os.path.join(VERIF, 'triage')
        if not os.path.isdir(tdir):
            return []
        return [f[:-5] for f in os.listdir(tdir)
                if f.startswith(prefix) and f.endswith('.json')]


def write_error_evidence(prop, tier, seed, message, start):
    evidence = {
        'property_id': prop, 'tier': tier, 'seed': int(seed), 'level': 'other',
        'coverage': {'explanation': 'ANALYSIS-ERROR: ' + message,
                     'obligations': 0, 'discharged': 0},
        'assumptions': [], 'wall_s': round(time.time() - start, 3),
        'violations': 0,
    }
    os.makedirs(os.path.join(VERIF, 'evidence'), exist_ok=True)
    with open(os.path.join(VERIF, 'evidence', prop + '.json'), 'w',
              encoding='utf-8') as handle:
        json.dump(evidence, handle, indent=1, sort_keys=True)
