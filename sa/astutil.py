"""Small AST helpers shared by all checks (stdlib only)."""
import ast
import math
import string


def unparse(node):
    if node is None:
        return ''
    if isinstance(node, list):
        return '; '.join(unparse(n) for n in node)
    try:
        return ast.unparse(node)
    except Exception:  # pragma: no cover
        return '<%s>' % type(node).__name__


def norm(node):
    """Normalised text of a node (formatting/comment independent).  String
    literals keep their inner whitespace; multi-line statements are joined."""
    text = unparse(node)
    if '\n' not in text:
        return text
    return ' '.join(line.strip() for line in text.splitlines())


def walk_with_lambdas(fn):
    """Like walk_no_nested but descends into lambdas (their bodies run in the
    function's own activations); nested defs and classes are still skipped."""
    stack = list(reversed(list(ast.iter_child_nodes(fn))))
    while stack:
        cur = stack.pop()
        yield cur
        if isinstance(cur, (ast.FunctionDef, ast.AsyncFunctionDef, ast.ClassDef)):
            continue
        stack.extend(reversed(list(ast.iter_child_nodes(cur))))


def short(node, limit=140):
    text = norm(node)
    return text if len(text) <= limit else text[:limit - 3] + '...'


def where(mod, node):
    return '{0}:{1}'.format(mod.path, getattr(node, 'lineno', 0))


def dotted(node):
    """``a.b.c`` for Name/Attribute chains, else None."""
    parts = []
    while isinstance(node, ast.Attribute):
        parts.append(node.attr)
        node = node.value
    if isinstance(node, ast.Name):
        parts.append(node.id)
        return '.'.join(reversed(parts))
    return None


def call_name(call):
    """Dotted name of the callee, or the trailing attribute name for calls on
    arbitrary expressions (``x[0].foo()`` -> ``?.foo``)."""
    name = dotted(call.func)
    if name is not None:
        return name
    if isinstance(call.func, ast.Attribute):
        return '?.' + call.func.attr
    return None


def last_attr(call):
    if isinstance(call.func, ast.Attribute):
        return call.func.attr
    if isinstance(call.func, ast.Name):
        return call.func.id
    return None


def walk_no_nested(node):
    """ast.walk in source order that does not descend into nested
    function/class/lambda bodies (the nested definition node is yielded)."""
    yield node
    stack = list(reversed(list(ast.iter_child_nodes(node))))
    while stack:
        cur = stack.pop()
        yield cur
        if isinstance(cur, (ast.FunctionDef, ast.AsyncFunctionDef,
                            ast.ClassDef, ast.Lambda)):
            continue
        stack.extend(reversed(list(ast.iter_child_nodes(cur))))


def calls_in(node, nested=True):
    it = ast.walk(node) if nested else walk_no_nested(node)
    for sub in it:
        if isinstance(sub, ast.Call):
            yield sub


def names_in(node):
    return {n.id for n in ast.walk(node) if isinstance(n, ast.Name)}


def attrs_in(node):
    return {n.attr for n in ast.walk(node) if isinstance(n, ast.Attribute)}


def str_consts(node):
    return [n.value for n in ast.walk(node)
            if isinstance(n, ast.Constant) and isinstance(n.value, str)]


def parent(node):
    return getattr(node, '_parent', None)


def ancestors(node):
    cur = parent(node)
    while cur is not None:
        yield cur
        cur = parent(cur)


def enclosing_function(node):
    for anc in ancestors(node):
        if isinstance(anc, (ast.FunctionDef, ast.AsyncFunctionDef)):
            return anc
    return None


def enclosing_stmt(node):
    cur = node
    while cur is not None and not isinstance(cur, ast.stmt):
        cur = parent(cur)
    return cur


def enclosing_loops(node, stop=None):
    res = []
    for anc in ancestors(node):
        if anc is stop or isinstance(anc, (ast.FunctionDef, ast.AsyncFunctionDef, ast.Lambda)):
            break
        if isinstance(anc, (ast.For, ast.While)):
            res.append(anc)
    return res


def is_exit_stmt(stmt):
    return isinstance(stmt, (ast.Return, ast.Raise, ast.Continue, ast.Break))


def block_always_exits(stmts):
    """True when a statement list cannot fall through (ends in
    return/raise/continue/break on every path)."""
    for stmt in stmts:
        if is_exit_stmt(stmt):
            return True
        if isinstance(stmt, ast.If):
            if (stmt.orelse and block_always_exits(stmt.body)
                    and block_always_exits(stmt.orelse)):
                return True
    return False


def _containing_block(stmt):
    """(owner, field, list, index) of the statement list that holds ``stmt``."""
    par = parent(stmt)
    if par is None:
        return None
    for field in ('body', 'orelse', 'finalbody'):
        lst = getattr(par, field, None)
        if isinstance(lst, list) and stmt in lst:
            return par, field, lst, lst.index(stmt)
    if isinstance(par, ast.ExceptHandler):
        return par, 'body', par.body, par.body.index(stmt)
    if isinstance(par, ast.Try):
        for handler in par.handlers:
            if stmt is handler:
                return None
    return None


def guards_of(node, stop=None):
    """Syntactic dominating conditions of ``node``.

    Returns a list of (test_expr, polarity, kind) where kind is 'if' (the node
    sits in the body/orelse of that test), 'early-exit' (an earlier sibling
    ``if test: <always exits>`` was passed, so ``not test`` holds), 'while' or
    'assert'.  Walks outwards up to the enclosing function (or ``stop``).
    This is a sound under-approximation of dominance: every condition listed
    does hold whenever ``node`` executes (loops: the early-exit siblings must
    be in the same iteration, which holds because they precede ``node`` in the
    same block).
    """
    res = []
    cur = enclosing_stmt(node) if not isinstance(node, ast.stmt) else node
    # expression-level guards: BoolOp short circuit and IfExp / comprehension ifs
    res.extend(_expr_guards(node, cur))
    while cur is not None and cur is not stop:
        if isinstance(cur, (ast.FunctionDef, ast.AsyncFunctionDef, ast.ClassDef)):
            break
        info = _containing_block(cur)
        if info is None:
            cur = parent(cur)
            continue
        owner, field, lst, idx = info
        for prev in lst[:idx]:
            if isinstance(prev, ast.If) and block_always_exits(prev.body) and not prev.orelse:
                res.append((prev.test, False, 'early-exit'))
            elif (isinstance(prev, ast.If) and prev.orelse
                  and block_always_exits(prev.orelse) and not block_always_exits(prev.body)):
                res.append((prev.test, True, 'early-exit'))
            elif isinstance(prev, ast.Assert):
                res.append((prev.test, True, 'assert'))
        if isinstance(owner, ast.If):
            res.append((owner.test, field == 'body', 'if'))
        elif isinstance(owner, ast.While) and field == 'body':
            res.append((owner.test, True, 'while'))
        cur = owner
    return res


def _expr_guards(node, stmt):
    res = []
    cur = node
    while cur is not None and cur is not stmt:
        par = parent(cur)
        if isinstance(par, ast.BoolOp):
            idx = par.values.index(cur) if cur in par.values else 0
            for prev in par.values[:idx]:
                res.append((prev, isinstance(par.op, ast.And), 'boolop'))
        elif isinstance(par, ast.IfExp):
            if cur is par.body:
                res.append((par.test, True, 'ifexp'))
            elif cur is par.orelse:
                res.append((par.test, False, 'ifexp'))
        elif isinstance(par, (ast.ListComp, ast.SetComp, ast.GeneratorExp, ast.DictComp)):
            if cur is not None and cur not in par.generators:
                for gen in par.generators:
                    for cond in gen.ifs:
                        res.append((cond, True, 'comp-if'))
        elif isinstance(par, ast.comprehension):
            # inside a generator clause: the conditions of the clauses in front of
            # it hold (and, for a later condition of the same clause, its earlier ones)
            comp = parent(par)
            if isinstance(comp, (ast.ListComp, ast.SetComp, ast.GeneratorExp, ast.DictComp)):
                for gen in comp.generators:
                    if gen is par:
                        if cur in gen.ifs:
                            for cond in gen.ifs[:gen.ifs.index(cur)]:
                                res.append((cond, True, 'comp-if'))
                        break
                    for cond in gen.ifs:
                        res.append((cond, True, 'comp-if'))
            cur = comp
            continue
        cur = par
    return res


def flatten_and(test, polarity=True):
    """Atomic facts implied by (test == polarity): list of (expr, polarity)."""
    if isinstance(test, ast.UnaryOp) and isinstance(test.op, ast.Not):
        return flatten_and(test.operand, not polarity)
    if isinstance(test, ast.BoolOp):
        if isinstance(test.op, ast.And) and polarity:
            res = []
            for val in test.values:
                res.extend(flatten_and(val, True))
            return res
        if isinstance(test.op, ast.Or) and not polarity:
            res = []
            for val in test.values:
                res.extend(flatten_and(val, False))
            return res
        return [(test, polarity)]
    # a false equality / membership / identity test is read as the true
    # opposite test, so that a fact reads the same whether the author wrote
    # `if a == b: ...` or `if a != b: continue`
    return [positive_fact(test, polarity)]


def positive_fact(test, polarity):
    """(expr, polarity) with a false ==, !=, in, not in, is, is not test turned
    into the true opposite test."""
    if not polarity and isinstance(test, ast.Compare) and len(test.ops) == 1 \
            and type(test.ops[0]) in _OPPOSITE:
        pos = ast.Compare(left=test.left, ops=[_OPPOSITE[type(test.ops[0])]()],
                          comparators=test.comparators)
        ast.copy_location(pos, test)
        pos._parent = getattr(test, '_parent', None)
        return pos, True
    return test, polarity


_OPPOSITE = {ast.Eq: ast.NotEq, ast.NotEq: ast.Eq, ast.In: ast.NotIn, ast.NotIn: ast.In,
             ast.Is: ast.IsNot, ast.IsNot: ast.Is}


def facts_at(node, stop=None):
    """All atomic (expr, polarity) facts that hold at ``node``."""
    res = []
    for test, pol, _kind in guards_of(node, stop):
        res.extend(flatten_and(test, pol))
    return res


def fact_texts(node, stop=None):
    return [(norm(e), p) for e, p in facts_at(node, stop)]


def assigned_names(target):
    res = []
    for sub in ast.walk(target):
        if isinstance(sub, ast.Name) and isinstance(sub.ctx, ast.Store):
            res.append(sub.id)
    return res


def stores_in(func):
    """Yield (stmt, target_node) for every assignment target in a function
    (Assign/AugAssign/AnnAssign/For/With targets), nested defs excluded."""
    for node in walk_no_nested(func):
        if isinstance(node, ast.Assign):
            for tgt in node.targets:
                yield node, tgt
        elif isinstance(node, ast.AugAssign):
            yield node, node.target
        elif isinstance(node, ast.AnnAssign) and node.value is not None:
            yield node, node.target
        elif isinstance(node, (ast.For, ast.comprehension)):
            yield node, node.target
        elif isinstance(node, ast.With):
            for item in node.items:
                if item.optional_vars is not None:
                    yield node, item.optional_vars


def local_defs(func, name):
    """Assigned value expressions for local ``name`` inside ``func`` (simple
    ``name = expr`` / ``name += expr`` only)."""
    res = []
    for stmt, tgt in stores_in(func):
        if isinstance(tgt, ast.Name) and tgt.id == name:
            res.append(stmt)
        elif isinstance(tgt, (ast.Tuple, ast.List)):
            for elt in tgt.elts:
                if isinstance(elt, ast.Name) and elt.id == name:
                    res.append(stmt)
    return res


class FoldError(Exception):
    pass


_MATH = {'sqrt': math.sqrt, 'pow': math.pow, 'floor': math.floor,
         'radians': math.radians, 'log10': math.log10}


def fold(node, env=None):
    """Constant-fold a numeric expression; ``env`` maps dotted names to
    values.  Raises FoldError on anything it cannot evaluate."""
    env = env or {}
    if isinstance(node, ast.Constant):
        if isinstance(node.value, (int, float)) and not isinstance(node.value, bool):
            return node.value
        raise FoldError('non-numeric constant %r' % (node.value,))
    if isinstance(node, ast.UnaryOp):
        val = fold(node.operand, env)
        if isinstance(node.op, ast.USub):
            return -val
        if isinstance(node.op, ast.UAdd):
            return +val
        raise FoldError('unary')
    if isinstance(node, ast.BinOp):
        left, right = fold(node.left, env), fold(node.right, env)
        try:
            if isinstance(node.op, ast.Add):
                return left + right
            if isinstance(node.op, ast.Sub):
                return left - right
            if isinstance(node.op, ast.Mult):
                return left * right
            if isinstance(node.op, ast.Div):
                return left / right
            if isinstance(node.op, ast.FloorDiv):
                return left // right
            if isinstance(node.op, ast.Pow):
                return left ** right
            if isinstance(node.op, ast.Mod):
                return left % right
        except (ZeroDivisionError, OverflowError, ValueError) as err:
            raise FoldError(str(err))
        raise FoldError('binop')
    name = dotted(node)
    if name is not None:
        if name in env:
            return env[name]
        if name == 'math.pi':
            return math.pi
        if name == 'math.inf':
            return math.inf
        raise FoldError('unknown name ' + name)
    if isinstance(node, ast.Call):
        cname = call_name(node) or ''
        args = [fold(a, env) for a in node.args]
        if cname in ('max', 'min') and args:
            return max(args) if cname == 'max' else min(args)
        if cname == 'abs' and len(args) == 1:
            return abs(args[0])
        if cname in ('float', 'int') and len(args) == 1:
            return float(args[0]) if cname == 'float' else int(args[0])
        if cname == 'float' and len(node.args) == 1:
            pass
        base = cname.split('.')[-1]
        if cname.startswith('math.') and base in _MATH:
            try:
                return _MATH[base](*args)
            except (ValueError, OverflowError) as err:
                raise FoldError(str(err))
        raise FoldError('call ' + cname)
    raise FoldError(type(node).__name__)


def try_fold(node, env=None):
    try:
        return fold(node, env)
    except FoldError:
        return None


def is_inf(node):
    """``math.inf``, ``float('inf')``, ``float("infinity")``."""
    if dotted(node) in ('math.inf', 'inf', 'numpy.inf', 'np.inf'):
        return True
    if isinstance(node, ast.Call) and call_name(node) == 'float' and node.args:
        arg = node.args[0]
        if isinstance(arg, ast.Constant) and isinstance(arg.value, str):
            return arg.value.strip().lower().lstrip('+') in ('inf', 'infinity')
    return False


def literal(node, env=None):
    """Evaluate a literal container (dict/list/tuple/set/str/num), with names
    looked up in ``env`` (name -> python value)."""
    env = env or {}
    if isinstance(node, ast.Constant):
        return node.value
    if isinstance(node, ast.Dict):
        return {literal(k, env): literal(v, env) for k, v in zip(node.keys, node.values)}
    if isinstance(node, (ast.List, ast.Tuple)):
        vals = [literal(e, env) for e in node.elts]
        return vals if isinstance(node, ast.List) else tuple(vals)
    if isinstance(node, ast.Set):
        return {literal(e, env) for e in node.elts}
    if isinstance(node, ast.UnaryOp) and isinstance(node.op, (ast.USub, ast.UAdd)):
        val = literal(node.operand, env)
        return -val if isinstance(node.op, ast.USub) else val
    if isinstance(node, ast.BinOp):
        return fold(node, {k: v for k, v in env.items() if isinstance(v, (int, float))})
    name = dotted(node)
    if name is not None and name in env:
        return env[name]
    raise FoldError('not a literal: ' + short(node, 60))


def format_fields(fmt):
    """[(field_name, format_spec, conversion)] of a str.format template."""
    res = []
    for _lit, field, spec, conv in string.Formatter().parse(fmt):
        if field is not None:
            res.append((field, spec or '', conv))
    return res


def joined_str_parts(node):
    """For an f-string: list of ('lit', text) / ('expr', node, spec)."""
    res = []
    for val in node.values:
        if isinstance(val, ast.Constant):
            res.append(('lit', val.value))
        elif isinstance(val, ast.FormattedValue):
            spec = ''
            if val.format_spec is not None:
                spec = ''.join(v.value for v in val.format_spec.values
                               if isinstance(v, ast.Constant))
            res.append(('expr', val.value, spec))
    return res


def str_template(node):
    """Normalised template of a string-building expression:
    ``'..{0:3s}..'.format(a, b)`` or an f-string ->
    [('lit', text) | ('fld', <expr text>, <spec without the s/< defaults>)];
    None for anything else."""
    def nspec(spec):
        return (spec or '').replace('<', '').rstrip('s')
    if isinstance(node, ast.JoinedStr):
        res = []
        for part in joined_str_parts(node):
            if part[0] == 'lit':
                res.append(('lit', part[1]))
            else:
                res.append(('fld', norm(part[1]), nspec(part[2])))
        return res
    if isinstance(node, ast.Call) and isinstance(node.func, ast.Attribute) and node.func.attr == 'format' \
            and isinstance(node.func.value, ast.Constant) and isinstance(node.func.value.value, str):
        res = []
        auto = 0
        for lit, field, spec, _conv in string.Formatter().parse(node.func.value.value):
            if lit:
                res.append(('lit', lit))
            if field is None:
                continue
            if field == '':
                idx = auto
                auto += 1
            elif field.isdigit():
                idx = int(field)
            else:
                kw = [k.value for k in node.keywords if k.arg == field]
                if not kw:
                    return None
                res.append(('fld', norm(kw[0]), nspec(spec)))
                continue
            if idx >= len(node.args):
                return None
            res.append(('fld', norm(node.args[idx]), nspec(spec)))
        return res
    return None


def concat_str(node, env=None):
    """Evaluate implicit/explicit concatenation of string constants."""
    if isinstance(node, ast.Constant) and isinstance(node.value, str):
        return node.value
    if isinstance(node, ast.BinOp) and isinstance(node.op, ast.Add):
        left, right = concat_str(node.left, env), concat_str(node.right, env)
        if left is not None and right is not None:
            return left + right
    if env and dotted(node) in env and isinstance(env[dotted(node)], str):
        return env[dotted(node)]
    return None


def func_params(func):
    args = func.args
    return [a.arg for a in args.posonlyargs + args.args + args.kwonlyargs]


def param_default(func, name):
    args = func.args
    pos = args.posonlyargs + args.args
    defaults = [None] * (len(pos) - len(args.defaults)) + list(args.defaults)
    for arg, default in zip(pos, defaults):
        if arg.arg == name:
            return default
    for arg, default in zip(args.kwonlyargs, args.kw_defaults):
        if arg.arg == name:
            return default
    return None


def call_arg(call, func, name):
    """Expression passed for parameter ``name`` of ``func`` at ``call``
    (positional or keyword; None when not passed).  ``self`` is skipped for
    bound-method calls (attribute calls)."""
    params = func_params(func)
    if params and params[0] in ('self', 'cls') and isinstance(call.func, ast.Attribute):
        params = params[1:]
    for kw in call.keywords:
        if kw.arg == name:
            return kw.value
    if name in params:
        idx = params.index(name)
        if idx < len(call.args) and not any(isinstance(a, ast.Starred) for a in call.args[:idx + 1]):
            return call.args[idx]
    return None


# ------------------------------------------------------------ alpha renaming
def local_names(fn):
    """Locals of ``fn`` (assigned names that are not parameters), in order of
    their first binding occurrence in the source."""
    params = set(func_params(fn))
    if fn.args.vararg:
        params.add(fn.args.vararg.arg)
    if fn.args.kwarg:
        params.add(fn.args.kwarg.arg)
    order = []
    declared_global = set()
    for node in ast.walk(fn):
        if isinstance(node, (ast.Global, ast.Nonlocal)):
            declared_global.update(node.names)
    stores = []
    for node in ast.walk(fn):
        if isinstance(node, ast.Name) and isinstance(node.ctx, (ast.Store, ast.Del)):
            stores.append(node)
        elif isinstance(node, ast.ExceptHandler) and node.name:
            stores.append(node)
    stores.sort(key=lambda n: (getattr(n, 'lineno', 0), getattr(n, 'col_offset', 0)))
    for node in stores:
        name = node.id if isinstance(node, ast.Name) else node.name
        if name not in params and name not in declared_global and name not in order:
            order.append(name)
    return order


def alpha_map(fn):
    cache = getattr(fn, '_alpha_map', None)
    if cache is None:
        cache = {name: 'L%d' % (i + 1) for i, name in enumerate(local_names(fn))}
        try:
            fn._alpha_map = cache
        except AttributeError:
            pass
    return cache


def anorm(node, fn=None):
    """Normalised text with the locals of the enclosing function replaced by
    placeholders numbered by first appearance *inside the node* (L1, L2, ...),
    so that neither a consistent renaming of locals nor a local introduced
    elsewhere in the function changes the text."""
    if fn is None:
        fn = node if isinstance(node, (ast.FunctionDef, ast.AsyncFunctionDef)) \
            else enclosing_function(node)
        while fn is not None and not hasattr(fn, '_qualname'):
            nxt = enclosing_function(fn)
            if nxt is None:
                break
            fn = nxt
    if fn is None:
        return norm(node)
    locals_ = set(alpha_map(fn))
    # parameters are named by position (A1, A2, ...; self/cls keep their names)
    mapping = {}
    pos = 0
    for prm in func_params(fn):
        if prm in ('self', 'cls'):
            continue
        pos += 1
        mapping[prm] = 'A%d' % pos
    locals_ |= set(mapping)
    if not locals_:
        return norm(node)
    n_params = len(mapping)

    def placeholder(name):
        if name not in mapping:
            mapping[name] = 'L%d' % (len(mapping) - n_params + 1)
        return mapping[name]

    def clone(n):
        # depth-first in field order = order of appearance in the source
        if isinstance(n, ast.AST):
            new = type(n)()
            done = set()
            if isinstance(n, (ast.ListComp, ast.SetComp, ast.GeneratorExp, ast.DictComp)):
                # generators are read before the element expression
                new.generators = clone(n.generators)
                done.add('generators')
            for field in n._fields:
                if hasattr(n, field) and field not in done:
                    setattr(new, field, clone(getattr(n, field)))
            for attr in n._attributes:
                if hasattr(n, attr):
                    setattr(new, attr, getattr(n, attr))
            if isinstance(new, ast.Name) and new.id in locals_:
                new.id = placeholder(new.id)
            if isinstance(new, ast.ExceptHandler) and new.name in locals_:
                new.name = placeholder(new.name)
            return new
        if isinstance(n, list):
            return [clone(x) for x in n]
        return n
    if isinstance(node, list):
        return '; '.join(norm(clone(x)) for x in node)
    return norm(clone(node))


# ------------------------------------------------------------ inert statements
LOG_METHODS = {'debug', 'info', 'warning', 'error', 'critical', 'exception', 'log'}


def is_inert_stmt(stmt):
    """Docstrings, `pass`, and calls of a logger method (``_LOGGER.debug(...)``,
    ``logging.info(...)``): statements that structural rules about "the first
    statement", "the only statement" or "exactly these statements" skip."""
    if isinstance(stmt, ast.Pass):
        return True
    if isinstance(stmt, ast.Expr):
        v = stmt.value
        if isinstance(v, ast.Constant):
            return True
        if isinstance(v, ast.Call) and isinstance(v.func, ast.Attribute) \
                and v.func.attr in LOG_METHODS:
            base = dotted(v.func.value) or ''
            return base.split('.')[-1].lower() in ('_logger', 'logger', 'logging', 'log', '_log')
    return False


def effective(stmts):
    """The statements of a block without the inert ones."""
    return [s for s in stmts if not is_inert_stmt(s)]


def string_builders(root):
    """[(node, template)] for every ``'..'.format(..)`` call and every f-string
    under ``root`` (nested functions excluded); template as in str_template."""
    res = []
    for node in walk_with_lambdas(root):
        if isinstance(node, ast.JoinedStr) or (
                isinstance(node, ast.Call) and isinstance(node.func, ast.Attribute)
                and node.func.attr == 'format'):
            # an f-string used as the format spec of another one is part of it
            par = getattr(node, '_parent', None)
            if isinstance(par, ast.FormattedValue) and par.format_spec is node:
                continue
            tpl = str_template(node)
            if tpl is not None:
                res.append((node, tpl))
    return res
