"""Loader normalisation: private helpers are read at their call sites.

A maintainer who extracts ``_sum_determinants()`` or ``_warn_about_x()`` from a
long function has not changed what the function does; rules that are stated on
"the body of function F" should see the same statements as before.  So a call
to a *private helper of the same module* (name with one leading underscore,
module-level function, method of the same class or nested function) is
replaced by the helper's body, parameters bound to the arguments, locals
renamed, ``return`` turned into an assignment on a single-exit form of the body.
Helpers all of whose uses could be expanded are dropped from the module.

Only what can be expanded exactly is expanded; anything else (generators,
recursion, ``*args``, returns inside loops, calls inside larger expressions of
multi-statement helpers) is left as it is.
"""
import ast
import copy

KEEP = {'_find_bonds_for_atoms'}      # helpers of the pinned tree that rules name as call targets


def _is_private(name):
    return name.startswith('_') and not name.startswith('__') and name not in KEEP


def _simple_expr(e):
    """Side-effect-free and cheap to read again: no calls, no comprehensions
    (names, attributes, subscripts and slices, literals, arithmetic, lambdas)."""
    if isinstance(e, ast.Lambda):
        return True
    for n in ast.walk(e):
        if isinstance(n, (ast.Call, ast.ListComp, ast.SetComp, ast.DictComp, ast.GeneratorExp,
                          ast.Await, ast.Yield, ast.YieldFrom, ast.NamedExpr, ast.Starred)):
            return False
    return True


class _Helper:
    def __init__(self, fn, cls):
        self.fn, self.cls = fn, cls
        self.name = fn.name
        decos = [ast.unparse(d) for d in fn.decorator_list]
        self.static = 'staticmethod' in decos
        self.ok = all(d == 'staticmethod' for d in decos)
        a = fn.args
        if a.vararg or a.kwarg or a.posonlyargs or a.kwonlyargs:
            self.ok = False
        for n in ast.walk(fn):
            if isinstance(n, (ast.Yield, ast.YieldFrom, ast.Await, ast.Global, ast.Nonlocal, ast.Try,
                              ast.With, ast.AsyncFunctionDef, ast.ClassDef)):
                self.ok = False
            if n is not fn and isinstance(n, ast.FunctionDef):
                self.ok = False
            if isinstance(n, ast.Call) and isinstance(n.func, ast.Name) and n.func.id == fn.name:
                self.ok = False
            if isinstance(n, ast.Call) and isinstance(n.func, ast.Attribute) and n.func.attr == fn.name:
                self.ok = False
        self.params = [x.arg for x in a.args]
        self.defaults = dict(zip(self.params[len(self.params) - len(a.defaults):], a.defaults))
        body = list(fn.body)
        if body and isinstance(body[0], ast.Expr) and isinstance(body[0].value, ast.Constant) \
                and isinstance(body[0].value.value, str):
            body = body[1:]
        self.body = body
        self.stored = {n.id for n in ast.walk(fn) if isinstance(n, ast.Name)
                       and isinstance(n.ctx, (ast.Store, ast.Del))}
        # single expression helper: `return <expr>`
        self.expr = body[0].value if len(body) == 1 and isinstance(body[0], ast.Return) \
            and body[0].value is not None else None


def _single_exit(stmts, target):
    """Statements equivalent to ``stmts`` in which every ``return v`` is
    ``target = v`` (dropped when target is None) and control falls off the end.
    Returns (new statements, always-returned) or None when not expressible
    (return inside a loop)."""
    out = []
    for i, st in enumerate(stmts):
        if isinstance(st, ast.Return):
            if target is not None:
                val = st.value if st.value is not None else ast.Constant(value=None)
                out.append(ast.copy_location(ast.Assign(targets=[copy.deepcopy(target)], value=val), st))
            elif st.value is not None and not isinstance(st.value, (ast.Constant, ast.Name)):
                # the value is not used, but it is still evaluated
                out.append(ast.copy_location(ast.Expr(value=st.value), st))
            return out, True
        if isinstance(st, (ast.For, ast.While)):
            if any(isinstance(n, ast.Return) for n in ast.walk(st)):
                return None
            out.append(st)
            continue
        if isinstance(st, ast.If):
            if not any(isinstance(n, ast.Return) for n in ast.walk(st)):
                out.append(st)
                continue
            b1 = _single_exit(st.body, target)
            b2 = _single_exit(st.orelse, target)
            if b1 is None or b2 is None:
                return None
            rest = stmts[i + 1:]
            (s1, r1), (s2, r2) = b1, b2
            if r1 and r2:
                out.append(ast.copy_location(ast.If(test=st.test, body=s1 or [ast.Pass()], orelse=s2), st))
                return out, True
            tail = _single_exit(rest, target)
            if tail is None:
                return None
            ts, tr = tail
            if r1:
                out.append(ast.copy_location(ast.If(test=st.test, body=s1 or [ast.Pass()],
                                                    orelse=s2 + ts), st))
            elif r2:
                out.append(ast.copy_location(ast.If(test=st.test, body=(s1 + ts) or [ast.Pass()],
                                                    orelse=s2 or []), st))
            else:
                # cannot happen: a Return was found below
                return None
            return out, tr
        out.append(st)
    return out, False


class _Subst(ast.NodeTransformer):
    def __init__(self, mapping):
        self.mapping = mapping

    def visit_Name(self, node):
        if node.id in self.mapping:
            rep = self.mapping[node.id]
            if isinstance(rep, str):
                return ast.copy_location(ast.Name(id=rep, ctx=node.ctx), node)
            if isinstance(node.ctx, ast.Load):
                new = copy.deepcopy(rep)
                for sub in ast.walk(new):
                    ast.copy_location(sub, node)
                return new
        return node

    def visit_Lambda(self, node):
        shadow = {a.arg for a in node.args.args}
        inner = _Subst({k: v for k, v in self.mapping.items() if k not in shadow})
        node.body = inner.visit(node.body)
        return node


def _bind(helper, call, receiver_is_self, caller_names=frozenset()):
    """(prelude statements, name mapping) for the call, or None."""
    params = list(helper.params)
    args = list(call.args)
    mapping = {}
    prelude = []
    if helper.cls is not None and not helper.static:
        if not (isinstance(call.func, ast.Attribute) and params):
            return None
        bound = [(params[0], call.func.value)]
        params = params[1:]
    else:
        bound = []
    if any(isinstance(a, ast.Starred) for a in args) or any(k.arg is None for k in call.keywords):
        return None
    # a helper that is handed a function stays a helper (higher-order structure
    # is what rules about "the routine applied with this predicate" are stated on)
    if any(isinstance(a, ast.Lambda) for a in args) or any(isinstance(k.value, ast.Lambda)
                                                           for k in call.keywords):
        return None
    if len(args) > len(params):
        return None
    bound += list(zip(params, args))
    rest = params[len(args):]
    kws = {k.arg: k.value for k in call.keywords}
    for p in rest:
        if p in kws:
            bound.append((p, kws.pop(p)))
        elif p in helper.defaults:
            bound.append((p, helper.defaults[p]))
        else:
            return None
    if kws:
        return None
    suffix = '_%s' % helper.name.strip('_')
    for p, e in bound:
        if _simple_expr(e) and p not in helper.stored:
            mapping[p] = e
        else:
            tmp = p + suffix
            INTRODUCED.add(tmp)
            prelude.append(ast.copy_location(ast.Assign(
                targets=[ast.Name(id=tmp, ctx=ast.Store())], value=e), call))
            mapping[p] = tmp
    for local in helper.stored:
        if local not in mapping and local in caller_names:
            mapping[local] = local + suffix      # keeps the helper's local apart from the caller's
            INTRODUCED.add(local + suffix)
    return prelude, mapping


_EXPANDED = set()
INTRODUCED = set()      # names that exist only because a helper was expanded
_CALLER_NAMES = [frozenset()]


def _expand_stmt(st, helpers, scope_cls):
    """Replacement statements for ``st`` if it is an expandable call site."""
    call = target = None
    mode = None
    if isinstance(st, ast.Expr) and isinstance(st.value, ast.Call):
        call, mode = st.value, 'expr'
    elif isinstance(st, ast.Assign) and len(st.targets) == 1 and isinstance(st.value, ast.Call):
        call, target, mode = st.value, st.targets[0], 'assign'
    elif isinstance(st, ast.AnnAssign) and isinstance(st.value, ast.Call) and st.simple:
        call, target, mode = st.value, st.target, 'assign'
    elif isinstance(st, ast.Return) and isinstance(st.value, ast.Call):
        call, mode = st.value, 'return'
    elif isinstance(st, ast.AugAssign) and isinstance(st.value, ast.Call):
        call, mode = st.value, 'aug'
    if call is None and isinstance(st, ast.If):
        # `if helper(...):` / `if not helper(...):` - the call is evaluated first
        # and once: bind it, then test the bound value
        test = st.test
        neg = isinstance(test, ast.UnaryOp) and isinstance(test.op, ast.Not)
        inner = test.operand if neg else test
        if isinstance(inner, ast.Call):
            h = _resolve(inner, helpers, scope_cls)
            if h is not None and h.ok and h.expr is None:
                tmp = 'result_%s' % h.name.strip('_')
                bind = ast.copy_location(ast.Assign(targets=[ast.Name(id=tmp, ctx=ast.Store())],
                                                    value=inner), st)
                rep = _expand_stmt(bind, helpers, scope_cls)
                if rep is not None:
                    load = ast.copy_location(ast.Name(id=tmp, ctx=ast.Load()), inner)
                    st.test = ast.copy_location(ast.UnaryOp(op=ast.Not(), operand=load), test) if neg else load
                    return rep + [st]
        return None
    if call is None:
        return None
    helper = _resolve(call, helpers, scope_cls)
    if helper is None or not helper.ok:
        return None
    bound = _bind(helper, call, True, _CALLER_NAMES[0])
    if bound is None:
        return None
    prelude, mapping = bound
    _EXPANDED.add(helper.name)
    # `t = helper(...)` where the helper builds a local and returns it at its
    # end: the local *is* t (no `t = local_of_helper` copy at the end)
    rets = [n for s in helper.body for n in ast.walk(s) if isinstance(n, ast.Return)]
    if mode == 'assign' and isinstance(target, ast.Name) and len(rets) == 1 \
            and helper.body and helper.body[-1] is rets[0] and isinstance(rets[0].value, ast.Name) \
            and rets[0].value.id in helper.stored and rets[0].value.id not in helper.params:
        local = rets[0].value.id
        helper_names = {n.id for s in helper.body for n in ast.walk(s) if isinstance(n, ast.Name)}
        arg_names = {n.id for v in mapping.values() if isinstance(v, ast.AST)
                     for n in ast.walk(v) if isinstance(n, ast.Name)} | \
            {v for v in mapping.values() if isinstance(v, str)}
        if target.id not in arg_names and (target.id == local or target.id not in helper_names):
            mapping = dict(mapping)
            mapping[local] = target.id
    body = [_Subst(mapping).visit(copy.deepcopy(s)) for s in helper.body]
    if body and isinstance(body[-1], ast.Return) and isinstance(body[-1].value, ast.Name) \
            and mode == 'assign' and isinstance(target, ast.Name) and body[-1].value.id == target.id:
        if len(rets) == 1:
            return prelude + (body[:-1] or [ast.copy_location(ast.Pass(), st)])
    if mode == 'return':
        return prelude + (body or [ast.copy_location(ast.Return(value=None), st)]) + (
            [] if body and _always_returns(body) else [ast.copy_location(ast.Return(value=None), st)])
    if mode == 'aug':
        tmp = ast.Name(id='result_%s' % helper.name.strip('_'), ctx=ast.Store())
        res = _single_exit(body, tmp)
        if res is None:
            return None
        stmts, _r = res
        load = ast.Name(id=tmp.id, ctx=ast.Load())
        return prelude + stmts + [ast.copy_location(ast.AugAssign(target=st.target, op=st.op, value=load), st)]
    res = _single_exit(body, target)
    if res is None:
        return None
    stmts, returned = res
    if mode == 'assign' and not returned:
        # falling off the end returns None
        stmts = stmts + [ast.copy_location(ast.Assign(targets=[copy.deepcopy(target)],
                                                      value=ast.Constant(value=None)), st)] \
            if not _always_assigns(stmts, target) else stmts
    return prelude + (stmts or [ast.copy_location(ast.Pass(), st)])


def _always_returns(stmts):
    if not stmts:
        return False
    last = stmts[-1]
    if isinstance(last, (ast.Return, ast.Raise)):
        return True
    if isinstance(last, ast.If) and last.orelse:
        return _always_returns(last.body) and _always_returns(last.orelse)
    return False


def _always_assigns(stmts, target):
    t = ast.unparse(target)
    if not stmts:
        return False
    last = stmts[-1]
    if isinstance(last, ast.Assign) and ast.unparse(last.targets[0]) == t:
        return True
    if isinstance(last, ast.If) and last.orelse:
        return _always_assigns(last.body, target) and _always_assigns(last.orelse, target)
    return False


def _resolve(call, helpers, scope_cls):
    f = call.func
    if isinstance(f, ast.Name) and _is_private(f.id):
        return helpers.get((None, f.id))
    if isinstance(f, ast.Attribute) and _is_private(f.attr) and isinstance(f.value, ast.Name):
        if f.value.id in ('self', 'cls') and scope_cls is not None:
            return helpers.get((scope_cls, f.attr))
        h = helpers.get((f.value.id, f.attr))       # ClassName._helper(...)
        if h is not None and h.static:
            return h
    return None


def _expand_exprs(node, helpers, scope_cls):
    """Calls to single-expression helpers inside larger expressions."""
    count = 0

    class T(ast.NodeTransformer):
        def visit_Name(self, name):
            # a single-expression module-level helper that is handed over rather
            # than called (`reduce(_add, xs)`) is the lambda it abbreviates
            nonlocal count
            h = helpers.get((None, name.id)) if isinstance(name.ctx, ast.Load) else None
            if h is None or not h.ok or h.expr is None or h.defaults or h.stored:
                return name
            count += 1
            _EXPANDED.add(h.name)
            lam = ast.Lambda(args=ast.arguments(
                posonlyargs=[], args=[ast.arg(arg=p_) for p_ in h.params], vararg=None,
                kwonlyargs=[], kw_defaults=[], kwarg=None, defaults=[]), body=copy.deepcopy(h.expr))
            for sub in ast.walk(lam):
                ast.copy_location(sub, name)
            return lam

        def visit_Call(self, call):
            nonlocal count
            if isinstance(call.func, ast.Name):
                call.args = [self.visit(a) for a in call.args]
                for k in call.keywords:
                    k.value = self.visit(k.value)
            else:
                self.generic_visit(call)
            h = _resolve(call, helpers, scope_cls)
            if h is None or not h.ok or h.expr is None:
                return call
            bound = _bind(h, call, True, _CALLER_NAMES[0])
            if bound is None:
                return call
            prelude, mapping = bound
            if prelude:
                return call
            count += 1
            _EXPANDED.add(h.name)
            return _Subst(mapping).visit(copy.deepcopy(h.expr))

        def visit_FunctionDef(self, fn):
            return fn
    for field, value in ast.iter_fields(node):
        if isinstance(value, ast.expr):
            setattr(node, field, T().visit(value))
        elif isinstance(value, list):
            setattr(node, field, [T().visit(v) if isinstance(v, ast.expr) else v for v in value])
    return count


def inline_private_helpers(tree):
    """Returns the number of call sites expanded."""
    total = 0
    expanded_names = set()
    for _round in range(4):
        helpers = {}
        for st in tree.body:
            if isinstance(st, ast.FunctionDef) and _is_private(st.name):
                helpers[(None, st.name)] = _Helper(st, None)
            if isinstance(st, ast.ClassDef):
                for sub in st.body:
                    if isinstance(sub, ast.FunctionDef) and _is_private(sub.name):
                        helpers[(st.name, sub.name)] = _Helper(sub, st.name)
        if not helpers:
            break
        count = 0

        def walk_blocks(node, scope_cls, inside_helper):
            nonlocal count
            for field in ('body', 'orelse', 'finalbody'):
                block = getattr(node, field, None)
                if not (isinstance(block, list) and block and isinstance(block[0], ast.stmt)):
                    continue
                new = []
                for st in block:
                    if isinstance(st, ast.ClassDef):
                        walk_blocks(st, st.name, False)
                        new.append(st)
                        continue
                    if isinstance(st, ast.FunctionDef):
                        saved = _CALLER_NAMES[0]
                        if not inside_helper:
                            _CALLER_NAMES[0] = frozenset(
                                {n.id for n in ast.walk(st) if isinstance(n, ast.Name)}
                                | {a.arg for a in st.args.args + st.args.kwonlyargs})
                        walk_blocks(st, scope_cls, True)
                        _CALLER_NAMES[0] = saved
                        new.append(st)
                        continue
                    rep = _expand_stmt(st, helpers, scope_cls) if inside_helper else None
                    if rep is not None:
                        count += 1
                        for r in rep:
                            ast.fix_missing_locations(ast.copy_location(r, st) if not hasattr(r, 'lineno') else r)
                        new.extend(rep)
                        continue
                    if inside_helper and not isinstance(st, (ast.FunctionDef, ast.ClassDef)):
                        count += _expand_exprs(st, helpers, scope_cls)
                    walk_blocks(st, scope_cls, inside_helper)
                    new.append(st)
                setattr(node, field, new)
            if isinstance(node, ast.Try):
                for h in node.handlers:
                    walk_blocks(h, scope_cls, inside_helper)
        _EXPANDED.clear()
        walk_blocks(tree, None, False)
        expanded_names |= set(_EXPANDED)
        total += count
        # drop helpers that are no longer referenced
        refs = set()
        for n in ast.walk(tree):
            if isinstance(n, ast.Name) and isinstance(n.ctx, ast.Load):
                refs.add(n.id)
            if isinstance(n, ast.Attribute):
                refs.add(n.attr)
        def prune(body):
            # only helpers that were read at their call sites go; a private
            # function nobody ever called stays visible to the rules
            return [st for st in body if not (isinstance(st, ast.FunctionDef) and _is_private(st.name)
                                              and st.name not in refs and st.name in expanded_names)]
        tree.body = prune(tree.body)
        for st in tree.body:
            if isinstance(st, ast.ClassDef):
                st.body = prune(st.body) or [ast.Pass()]
        if not count:
            break
    ast.fix_missing_locations(tree)
    return total
