"""Loader normalisation: private helpers are read at their call sites.

A maintainer who extracts ``_sum_determinants()`` or ``_warn_about_x()`` from a
long function has not changed what the function does; rules that are stated on
"the body of function F" should see the same statements as before.  So a call
to a *private helper of the same module* (name with one leading underscore,
module-level function, method of the same class or nested function) is
replaced by the helper's body, parameters bound to the arguments, locals
renamed, ``return`` turned into an assignment on a single-exit form of the body.
Helpers all of whose uses could be expanded are dropped from the module.

Only what can be expanded exactly is expanded; anything else (generators,
recursion, ``*args``, returns inside loops, calls inside larger expressions of
multi-statement helpers) is left as it is.
"""
import ast
import copy

KEEP = {'_find_bonds_for_atoms'}      # helpers of the pinned tree that rules name as call targets


LATER_HELPERS = set()      # per module: names read as helpers although they carry no underscore


def _is_private(name):
    if name in LATER_HELPERS:
        return True
    return name.startswith('_') and not name.startswith('__') and name not in KEEP


def later_helpers(tree, modname, elsewhere):
    """Functions and methods of this module that the tree on which the rules were
    confirmed does not have (tables/known_functions.json) and that no other
    module mentions: helpers introduced by a later change.  They are expanded at
    their call sites like private helpers, so that the rules see what the
    functions they are stated on do."""
    import json
    import os
    import re
    path = os.path.join(os.path.dirname(os.path.dirname(os.path.abspath(__file__))), 'tables',
                        'known_functions.json')
    try:
        with open(path, encoding='utf-8') as handle:
            table = json.load(handle)
            known = set(table['names'].get(modname, []))
            known_nested = set(table.get('nested', {}).get(modname, []))
    except (OSError, ValueError, KeyError):
        return set()
    if not known:
        return set()
    found = set()
    # functions defined inside a function that the confirmed tree does not have
    for fn in ast.walk(tree):
        if isinstance(fn, ast.FunctionDef):
            for sub in ast.walk(fn):
                if sub is not fn and isinstance(sub, ast.FunctionDef) and sub.name not in known_nested \
                        and not sub.name.startswith('_'):
                    found.add(sub.name)
    for st in tree.body:
        cands = []
        if isinstance(st, ast.FunctionDef):
            cands.append((st.name, st.name))
        if isinstance(st, ast.ClassDef) and st.name in known:
            for sub in st.body:
                if isinstance(sub, ast.FunctionDef):
                    cands.append((st.name + '.' + sub.name, sub.name))
        for qual, name in cands:
            if qual in known or name.startswith('_'):
                continue
            if re.search(r'\b%s\b' % re.escape(name), elsewhere):
                continue
            # a method name that a known class also defines elsewhere is an override, not a helper
            if '.' in qual and any(k.endswith('.' + name) for k in known):
                continue
            found.add(name)
    return found


def _simple_expr(e):
    """Side-effect-free and cheap to read again: no calls, no comprehensions
    (names, attributes, subscripts and slices, literals, arithmetic, lambdas)."""
    if isinstance(e, ast.Lambda):
        return True
    for n in ast.walk(e):
        if isinstance(n, (ast.Call, ast.ListComp, ast.SetComp, ast.DictComp, ast.GeneratorExp,
                          ast.Await, ast.Yield, ast.YieldFrom, ast.NamedExpr, ast.Starred)):
            return False
    return True


class _Helper:
    def __init__(self, fn, cls):
        self.fn, self.cls = fn, cls
        self.name = fn.name
        decos = [ast.unparse(d) for d in fn.decorator_list]
        self.static = 'staticmethod' in decos
        self.cm = any(d in ('contextmanager', 'contextlib.contextmanager') for d in decos)
        self.ok = all(d in ('staticmethod', 'contextmanager', 'contextlib.contextmanager') for d in decos)
        a = fn.args
        if a.vararg or a.kwarg or a.posonlyargs or a.kwonlyargs:
            self.ok = False
        yields = []
        for n in ast.walk(fn):
            if isinstance(n, ast.Yield):
                yields.append(n)
                continue
            if isinstance(n, (ast.YieldFrom, ast.Await, ast.Global, ast.Nonlocal, ast.Try,
                              ast.With, ast.AsyncFunctionDef, ast.ClassDef)):
                self.ok = False
        # a generator: every yield is a statement of its own, nothing is returned
        self.gen = False
        if yields:
            stmts = [st for st in ast.walk(fn) if isinstance(st, ast.Expr) and isinstance(st.value, ast.Yield)]
            plain = len(stmts) == len(yields) and not any(
                isinstance(n, ast.Return) and n.value is not None for n in ast.walk(fn))
            self.gen = self.ok and plain and len(yields) <= 2
            self.ok = False                 # never expanded as an ordinary call
            if n is not fn and isinstance(n, ast.FunctionDef):
                self.ok = False
            if isinstance(n, ast.Call) and isinstance(n.func, ast.Name) and n.func.id == fn.name:
                self.ok = False
            if isinstance(n, ast.Call) and isinstance(n.func, ast.Attribute) and n.func.attr == fn.name:
                self.ok = False
        self.params = [x.arg for x in a.args]
        self.defaults = dict(zip(self.params[len(self.params) - len(a.defaults):], a.defaults))
        body = list(fn.body)
        if body and isinstance(body[0], ast.Expr) and isinstance(body[0].value, ast.Constant) \
                and isinstance(body[0].value.value, str):
            body = body[1:]
        self.body = body
        self.stored = {n.id for n in ast.walk(fn) if isinstance(n, ast.Name)
                       and isinstance(n.ctx, (ast.Store, ast.Del))}
        # single expression helper: `return <expr>`
        self.expr = body[0].value if len(body) == 1 and isinstance(body[0], ast.Return) \
            and body[0].value is not None else None


def _single_exit(stmts, target):
    """Statements equivalent to ``stmts`` in which every ``return v`` is
    ``target = v`` (dropped when target is None) and control falls off the end.
    Returns (new statements, always-returned) or None when not expressible
    (return inside a loop)."""
    out = []
    for i, st in enumerate(stmts):
        if isinstance(st, ast.Return):
            if target is not None:
                val = st.value if st.value is not None else ast.Constant(value=None)
                out.append(ast.copy_location(ast.Assign(targets=[copy.deepcopy(target)], value=val), st))
            elif st.value is not None and not isinstance(st.value, (ast.Constant, ast.Name)):
                # the value is not used, but it is still evaluated
                out.append(ast.copy_location(ast.Expr(value=st.value), st))
            return out, True
        if isinstance(st, (ast.For, ast.While)):
            if any(isinstance(n, ast.Return) for n in ast.walk(st)):
                return None
            out.append(st)
            continue
        if isinstance(st, ast.If):
            if not any(isinstance(n, ast.Return) for n in ast.walk(st)):
                out.append(st)
                continue
            # what follows the `if` belongs to every branch that does not return
            rest = stmts[i + 1:]
            if sum(1 for r in rest for _n in ast.walk(r)) > 1500:
                return None
            b1 = _single_exit(list(st.body) + copy.deepcopy(rest), target)
            b2 = _single_exit(list(st.orelse) + rest, target)
            if b1 is None or b2 is None:
                return None
            (s1, r1), (s2, r2) = b1, b2
            out.append(ast.copy_location(ast.If(test=st.test, body=s1 or [ast.copy_location(ast.Pass(), st)],
                                                orelse=s2), st))
            return out, r1 and r2
        out.append(st)
    return out, False


class _Subst(ast.NodeTransformer):
    def __init__(self, mapping):
        self.mapping = mapping

    def visit_Name(self, node):
        if node.id in self.mapping:
            rep = self.mapping[node.id]
            if isinstance(rep, str):
                return ast.copy_location(ast.Name(id=rep, ctx=node.ctx), node)
            if isinstance(node.ctx, ast.Load):
                new = copy.deepcopy(rep)
                for sub in ast.walk(new):
                    ast.copy_location(sub, node)
                return new
        return node

    def visit_Lambda(self, node):
        shadow = {a.arg for a in node.args.args}
        inner = _Subst({k: v for k, v in self.mapping.items() if k not in shadow})
        node.body = inner.visit(node.body)
        return node


def _bind(helper, call, receiver_is_self, caller_names=frozenset()):
    """(prelude statements, name mapping) for the call, or None."""
    params = list(helper.params)
    args = list(call.args)
    mapping = {}
    prelude = []
    if helper.cls is not None and not helper.static:
        if not (isinstance(call.func, ast.Attribute) and params):
            return None
        bound = [(params[0], call.func.value)]
        params = params[1:]
    else:
        bound = []
    if any(isinstance(a, ast.Starred) for a in args) or any(k.arg is None for k in call.keywords):
        return None
    # a helper that is handed a function stays a helper (higher-order structure
    # is what rules about "the routine applied with this predicate" are stated on)
    if any(isinstance(a, ast.Lambda) for a in args) or any(isinstance(k.value, ast.Lambda)
                                                           for k in call.keywords):
        return None
    if len(args) > len(params):
        return None
    bound += list(zip(params, args))
    rest = params[len(args):]
    kws = {k.arg: k.value for k in call.keywords}
    for p in rest:
        if p in kws:
            bound.append((p, kws.pop(p)))
        elif p in helper.defaults:
            bound.append((p, helper.defaults[p]))
        else:
            return None
    if kws:
        return None
    suffix = '_%s' % helper.name.strip('_')
    for p, e in bound:
        if _simple_expr(e) and p not in helper.stored:
            mapping[p] = e
        elif isinstance(e, ast.Name) and p in helper.stored and sum(
                1 for _q, e2 in bound if isinstance(e2, ast.Name) and e2.id == e.id) == 1 \
                and (e.id == p or e.id not in helper.stored | set(helper.params)) \
                and _dead_after(e.id, _CALL_STMT[0], _CALLER_FN[0]):
            # the helper re-binds its parameter, and the caller does not read the
            # argument again: the parameter is the caller's local itself
            mapping[p] = e.id
        else:
            tmp = p + suffix
            INTRODUCED.add(tmp)
            prelude.append(ast.copy_location(ast.Assign(
                targets=[ast.Name(id=tmp, ctx=ast.Store())], value=e), call))
            mapping[p] = tmp
    for local in helper.stored:
        if local not in mapping and local in caller_names:
            mapping[local] = local + suffix      # keeps the helper's local apart from the caller's
            INTRODUCED.add(local + suffix)
    return prelude, mapping


_EXPANDED = set()
INTRODUCED = set()      # names that exist only because a helper was expanded
_CALLER_NAMES = [frozenset()]
_CALLER_FN = [None]
_CALL_STMT = [None]


def _dead_after(name, st, fn):
    """Is the caller's local ``name`` not read after statement ``st`` (which is
    not inside a loop) - or stored by ``st`` itself, so that its old value is gone?"""
    if fn is None or st is None:
        return False
    for n in ast.walk(fn):
        if isinstance(n, (ast.For, ast.While, ast.AsyncFor)) and any(x is st for x in ast.walk(n)):
            return False
    stores_it = any(isinstance(n, ast.Name) and n.id == name and isinstance(n.ctx, ast.Store)
                    for t in getattr(st, 'targets', []) for n in ast.walk(t))
    if stores_it:
        return True
    end = getattr(st, 'end_lineno', st.lineno)
    inside = {id(x) for x in ast.walk(st)}
    for n in ast.walk(fn):
        if isinstance(n, ast.Name) and n.id == name and isinstance(n.ctx, ast.Load) \
                and id(n) not in inside and getattr(n, 'lineno', 0) >= st.lineno:
            return False
    return True


def _expand_generator_loop(st, helpers, scope_cls):
    """``for T in _gen(args): BODY`` with a private generator: the generator's
    body with every ``yield v`` replaced by ``T = v; BODY``.  Exact when BODY
    does not break (a break would have to leave all loops of the generator) and
    every yield is the last statement of the block it stands in or BODY does
    not continue."""
    if not (isinstance(st, ast.For) and not st.orelse and isinstance(st.iter, ast.Call)):
        return None
    h = _resolve(st.iter, helpers, scope_cls)
    if h is None or not h.gen or h.cm:
        return None

    def own_jumps(body, kinds):
        found = []

        def walk(n, in_loop):
            for c in ast.iter_child_nodes(n):
                if isinstance(c, (ast.FunctionDef, ast.Lambda, ast.ClassDef)):
                    continue
                if isinstance(c, kinds) and not in_loop:
                    found.append(c)
                walk(c, in_loop or isinstance(c, (ast.For, ast.While)))
        for b in body:
            if isinstance(b, kinds):
                found.append(b)
            walk(b, isinstance(b, (ast.For, ast.While)))
        return found
    if own_jumps(st.body, (ast.Break,)):
        return None
    has_continue = bool(own_jumps(st.body, (ast.Continue,)))
    bound = _bind(h, st.iter, True, _CALLER_NAMES[0])
    if bound is None:
        return None
    prelude, mapping = bound
    # every yield hands over the same local of the generator: that local *is* the loop target
    yv = [n.value for x in h.body for n in ast.walk(x) if isinstance(n, ast.Yield)]
    same_local = None
    if isinstance(st.target, ast.Name) and yv and all(
            isinstance(v, ast.Name) and v.id == yv[0].id for v in yv if v is not None) \
            and all(v is not None for v in yv) and yv[0].id in h.stored and yv[0].id not in h.params:
        helper_names = {n.id for x in h.body for n in ast.walk(x) if isinstance(n, ast.Name)}
        arg_names = {n.id for v in mapping.values() if isinstance(v, ast.AST)
                     for n in ast.walk(v) if isinstance(n, ast.Name)} | \
            {v for v in mapping.values() if isinstance(v, str)}
        if st.target.id not in arg_names and (st.target.id == yv[0].id or st.target.id not in helper_names):
            mapping = dict(mapping)
            mapping[yv[0].id] = st.target.id
            same_local = st.target.id
    body = [_Subst(mapping).visit(copy.deepcopy(x)) for x in h.body]
    ok = [True]

    def place(block, in_loop):
        out = []
        for i, x in enumerate(block):
            if isinstance(x, ast.Expr) and isinstance(x.value, ast.Yield):
                if not in_loop and has_continue:
                    ok[0] = False
                if has_continue and i != len(block) - 1:
                    ok[0] = False
                val = x.value.value if x.value.value is not None else ast.Constant(value=None)
                if not (same_local is not None and isinstance(val, ast.Name) and val.id == same_local):
                    out.append(ast.copy_location(ast.Assign(targets=[copy.deepcopy(st.target)], value=val), st))
                out.extend(copy.deepcopy(st.body))
                continue
            for field in ('body', 'orelse', 'finalbody'):
                sub = getattr(x, field, None)
                if isinstance(sub, list) and sub and isinstance(sub[0], ast.stmt):
                    setattr(x, field, place(sub, in_loop or isinstance(x, (ast.For, ast.While))))
            out.append(x)
        return out
    body = place(body, False)
    if not ok[0]:
        return None
    if body and isinstance(body[-1], ast.Return) and body[-1].value is None:
        body = body[:-1]
    if any(isinstance(n, ast.Return) and n.value is None and n not in
           [m for b in st.body for m in ast.walk(b)] for b in h.body for n in ast.walk(b)):
        return None         # a bare return that ends the generator early
    _EXPANDED.add(h.name)
    return prelude + (body or [ast.copy_location(ast.Pass(), st)])


def _expand_with(st, helpers, scope_cls):
    """``with _cm(args) [as N]: BODY`` with a private generator-based context
    manager that has one top-level yield and no try: what comes before the
    yield, N = the yielded value, BODY, what comes after.  Exact when BODY
    neither returns nor jumps (then the rest of the generator would not run)."""
    if not (isinstance(st, ast.With) and len(st.items) == 1 and isinstance(st.items[0].context_expr, ast.Call)):
        return None
    call = st.items[0].context_expr
    h = _resolve(call, helpers, scope_cls)
    if h is None or not h.cm or not h.gen:
        return None
    tops = [i for i, x in enumerate(h.body) if isinstance(x, ast.Expr) and isinstance(x.value, ast.Yield)]
    all_y = [n for x in h.body for n in ast.walk(x) if isinstance(n, ast.Yield)]
    if len(tops) != 1 or len(all_y) != 1:
        return None
    if any(isinstance(n, (ast.Return, ast.Break, ast.Continue, ast.Yield, ast.YieldFrom))
           for b in st.body for n in ast.walk(b)):
        return None
    bound = _bind(h, call, True, _CALLER_NAMES[0])
    if bound is None:
        return None
    prelude, mapping = bound
    body = [_Subst(mapping).visit(copy.deepcopy(x)) for x in h.body]
    pre, y, post = body[:tops[0]], body[tops[0]], body[tops[0] + 1:]
    mid = []
    var = st.items[0].optional_vars
    if var is not None:
        val = y.value.value if y.value.value is not None else ast.Constant(value=None)
        mid.append(ast.copy_location(ast.Assign(targets=[var], value=val), st))
    elif y.value.value is not None and not isinstance(y.value.value, (ast.Constant, ast.Name)):
        mid.append(ast.copy_location(ast.Expr(value=y.value.value), st))
    _EXPANDED.add(h.name)
    return prelude + pre + mid + list(st.body) + post


def _expand_stmt(st, helpers, scope_cls):
    """Replacement statements for ``st`` if it is an expandable call site."""
    saved_stmt = _CALL_STMT[0]
    _CALL_STMT[0] = st
    try:
        return _expand_stmt_(st, helpers, scope_cls)
    finally:
        _CALL_STMT[0] = saved_stmt


def _expand_stmt_(st, helpers, scope_cls):
    rep = _expand_generator_loop(st, helpers, scope_cls)
    if rep is None:
        rep = _expand_with(st, helpers, scope_cls)
    if rep is not None:
        return rep
    call = target = None
    mode = None
    if isinstance(st, ast.Expr) and isinstance(st.value, ast.Call):
        call, mode = st.value, 'expr'
    elif isinstance(st, ast.Assign) and len(st.targets) == 1 and isinstance(st.value, ast.Call):
        call, target, mode = st.value, st.targets[0], 'assign'
    elif isinstance(st, ast.AnnAssign) and isinstance(st.value, ast.Call) and st.simple:
        call, target, mode = st.value, st.target, 'assign'
    elif isinstance(st, ast.Return) and isinstance(st.value, ast.Call):
        call, mode = st.value, 'return'
    elif isinstance(st, ast.AugAssign) and isinstance(st.value, ast.Call):
        call, mode = st.value, 'aug'
    if call is None and isinstance(st, ast.If):
        # `if helper(...):` / `if not helper(...):` - the call is evaluated first
        # and once: bind it, then test the bound value
        test = st.test
        neg = isinstance(test, ast.UnaryOp) and isinstance(test.op, ast.Not)
        inner = test.operand if neg else test
        if isinstance(inner, ast.Call):
            h = _resolve(inner, helpers, scope_cls)
            if h is not None and h.ok and h.expr is None:
                tmp = 'result_%s' % h.name.strip('_')
                bind = ast.copy_location(ast.Assign(targets=[ast.Name(id=tmp, ctx=ast.Store())],
                                                    value=inner), st)
                rep = _expand_stmt(bind, helpers, scope_cls)
                if rep is not None:
                    load = ast.copy_location(ast.Name(id=tmp, ctx=ast.Load()), inner)
                    st.test = ast.copy_location(ast.UnaryOp(op=ast.Not(), operand=load), test) if neg else load
                    return rep + [st]
        return None
    if call is not None and _resolve(call, helpers, scope_cls) is None and mode in ('expr', 'assign', 'return') \
            and isinstance(call.func, ast.Attribute):
        # `helper(...).method(simple args)`: the helper call is evaluated first and
        # once - bind its value, then call the method on it
        recv_holder, recv = call.func, call.func.value
        while isinstance(recv, ast.Attribute):
            recv_holder, recv = recv, recv.value
        if isinstance(recv, ast.Call):
            h = _resolve(recv, helpers, scope_cls)
            if h is not None and h.ok and h.expr is None and all(_simple_expr(a) for a in call.args) \
                    and all(_simple_expr(k.value) for k in call.keywords):
                tmp = 'result_%s' % h.name.strip('_')
                bind = ast.copy_location(ast.Assign(targets=[ast.Name(id=tmp, ctx=ast.Store())], value=recv), st)
                rep = _expand_stmt(bind, helpers, scope_cls)
                if rep is not None:
                    INTRODUCED.add(tmp)
                    recv_holder.value = ast.copy_location(ast.Name(id=tmp, ctx=ast.Load()), recv)
                    return rep + [st]
    if call is not None and _resolve(call, helpers, scope_cls) is None and mode in ('expr', 'assign', 'return') \
            and (isinstance(call.func, ast.Name) or _simple_expr(call.func)):
        # `obj.method(helper(...))` / `f(a, helper(...))`: one helper call among
        # otherwise simple arguments of a call on a simple receiver - bind it first
        slots = [(call.args, i) for i, a in enumerate(call.args) if isinstance(a, ast.Call)] + \
                [(k, 'value') for k in call.keywords if isinstance(k.value, ast.Call)]
        others_simple = all(_simple_expr(a) for a in call.args if not isinstance(a, ast.Call)) and \
            all(_simple_expr(k.value) for k in call.keywords if not isinstance(k.value, ast.Call))
        if len(slots) == 1 and others_simple:
            holder, key = slots[0]
            inner = holder[key] if isinstance(holder, list) else holder.value
            h = _resolve(inner, helpers, scope_cls)
            if h is not None and h.ok and h.expr is None:
                tmp = 'result_%s' % h.name.strip('_')
                bind = ast.copy_location(ast.Assign(targets=[ast.Name(id=tmp, ctx=ast.Store())], value=inner), st)
                rep = _expand_stmt(bind, helpers, scope_cls)
                if rep is not None:
                    INTRODUCED.add(tmp)
                    load = ast.copy_location(ast.Name(id=tmp, ctx=ast.Load()), inner)
                    if isinstance(holder, list):
                        holder[key] = load
                    else:
                        holder.value = load
                    return rep + [st]
    if call is None:
        return None
    helper = _resolve(call, helpers, scope_cls)
    if helper is None or not helper.ok:
        return None
    bound = _bind(helper, call, True, _CALLER_NAMES[0])
    if bound is None:
        return None
    prelude, mapping = bound
    _EXPANDED.add(helper.name)
    # `t = helper(...)` where the helper builds a local and returns it at its
    # end: the local *is* t (no `t = local_of_helper` copy at the end)
    rets = [n for s in helper.body for n in ast.walk(s) if isinstance(n, ast.Return)]
    if mode == 'assign' and isinstance(target, ast.Name) and len(rets) == 1 \
            and helper.body and helper.body[-1] is rets[0] and isinstance(rets[0].value, ast.Name) \
            and rets[0].value.id in helper.stored and rets[0].value.id not in helper.params:
        local = rets[0].value.id
        helper_names = {n.id for s in helper.body for n in ast.walk(s) if isinstance(n, ast.Name)}
        arg_names = {n.id for v in mapping.values() if isinstance(v, ast.AST)
                     for n in ast.walk(v) if isinstance(n, ast.Name)} | \
            {v for v in mapping.values() if isinstance(v, str)}
        if target.id not in arg_names and (target.id == local or target.id not in helper_names):
            mapping = dict(mapping)
            mapping[local] = target.id
    # `t1, t2, t3 = helper(...)` where every return is a tuple display and the
    # returns agree, at a position, on one local of the helper: that local is
    # the target at that position (returns that put something else there assign it)
    tuple_positions = {}
    if mode == 'assign' and isinstance(target, (ast.Tuple, ast.List)) \
            and all(isinstance(t, ast.Name) for t in target.elts) and rets and all(
                isinstance(r.value, ast.Tuple) and len(r.value.elts) == len(target.elts) for r in rets):
        helper_names = {n.id for s in helper.body for n in ast.walk(s) if isinstance(n, ast.Name)}
        taken = {v for v in mapping.values() if isinstance(v, str)} | {
            n.id for v in mapping.values() if isinstance(v, ast.AST) for n in ast.walk(v) if isinstance(n, ast.Name)}
        mapping = dict(mapping)
        for i, t in enumerate(target.elts):
            at = {r.value.elts[i].id for r in rets if isinstance(r.value.elts[i], ast.Name)}
            if len(at) != 1:
                continue
            local = next(iter(at))
            cur = mapping.get(local, local)
            if local in helper.stored and (cur == t.id or (
                    isinstance(cur, str) and (local not in helper.params or cur != local or True)
                    and t.id not in (taken - {cur}) and (t.id == local or t.id not in helper_names)
                    and not any(m == t.id for k_, m in mapping.items() if k_ != local and isinstance(m, str)))):
                if local in helper.params and not isinstance(mapping.get(local), str):
                    continue
                mapping[local] = t.id
                tuple_positions[i] = t.id
    body = [_Subst(mapping).visit(copy.deepcopy(s)) for s in helper.body]
    if tuple_positions:
        # rewrite the returns: positions that already hold their target are dropped
        def fix_returns(block):
            out = []
            for x in block:
                if isinstance(x, ast.Return) and isinstance(x.value, ast.Tuple):
                    keep_t, keep_v = [], []
                    for i, (t, v) in enumerate(zip(target.elts, x.value.elts)):
                        if i in tuple_positions and isinstance(v, ast.Name) and v.id == tuple_positions[i]:
                            continue
                        keep_t.append(copy.deepcopy(t))
                        keep_v.append(v)
                    for t, v in zip(keep_t, keep_v):
                        out.append(ast.copy_location(ast.Assign(targets=[t], value=v), x))
                    out.append(ast.copy_location(ast.Return(value=None), x))
                    continue
                for field in ('body', 'orelse', 'finalbody'):
                    sub = getattr(x, field, None)
                    if isinstance(sub, list) and sub and isinstance(sub[0], ast.stmt):
                        setattr(x, field, fix_returns(sub))
                out.append(x)
            return out
        body = fix_returns(body)
        res = _single_exit(body, None)
        if res is None:
            return None
        return prelude + (res[0] or [ast.copy_location(ast.Pass(), st)])
    if body and isinstance(body[-1], ast.Return) and isinstance(body[-1].value, ast.Name) \
            and mode == 'assign' and isinstance(target, ast.Name) and body[-1].value.id == target.id:
        if len(rets) == 1:
            return prelude + (body[:-1] or [ast.copy_location(ast.Pass(), st)])
    if mode == 'return':
        return prelude + (body or [ast.copy_location(ast.Return(value=None), st)]) + (
            [] if body and _always_returns(body) else [ast.copy_location(ast.Return(value=None), st)])
    if mode == 'aug':
        tmp = ast.Name(id='result_%s' % helper.name.strip('_'), ctx=ast.Store())
        res = _single_exit(body, tmp)
        if res is None:
            return None
        stmts, _r = res
        load = ast.Name(id=tmp.id, ctx=ast.Load())
        return prelude + stmts + [ast.copy_location(ast.AugAssign(target=st.target, op=st.op, value=load), st)]
    res = _single_exit(body, target)
    if res is None:
        return None
    stmts, returned = res
    if mode == 'assign' and not returned:
        # falling off the end returns None
        stmts = stmts + [ast.copy_location(ast.Assign(targets=[copy.deepcopy(target)],
                                                      value=ast.Constant(value=None)), st)] \
            if not _always_assigns(stmts, target) else stmts
    return prelude + (stmts or [ast.copy_location(ast.Pass(), st)])


def _always_returns(stmts):
    if not stmts:
        return False
    last = stmts[-1]
    if isinstance(last, (ast.Return, ast.Raise)):
        return True
    if isinstance(last, ast.If) and last.orelse:
        return _always_returns(last.body) and _always_returns(last.orelse)
    return False


def _always_assigns(stmts, target):
    t = ast.unparse(target)
    if not stmts:
        return False
    last = stmts[-1]
    if isinstance(last, ast.Assign) and ast.unparse(last.targets[0]) == t:
        return True
    if isinstance(last, ast.If) and last.orelse:
        return _always_assigns(last.body, target) and _always_assigns(last.orelse, target)
    return False


def _resolve(call, helpers, scope_cls):
    f = call.func
    if isinstance(f, ast.Name) and _is_private(f.id):
        return helpers.get((None, f.id))
    if isinstance(f, ast.Attribute) and _is_private(f.attr) and isinstance(f.value, ast.Name):
        if f.value.id in ('self', 'cls') and scope_cls is not None:
            return helpers.get((scope_cls, f.attr))
        h = helpers.get((f.value.id, f.attr))       # ClassName._helper(...)
        if h is not None and h.static:
            return h
    return None


def _expand_exprs(node, helpers, scope_cls):
    """Calls to single-expression helpers inside larger expressions."""
    count = 0

    class T(ast.NodeTransformer):
        def visit_Name(self, name):
            # a single-expression module-level helper that is handed over rather
            # than called (`reduce(_add, xs)`) is the lambda it abbreviates
            nonlocal count
            h = helpers.get((None, name.id)) if isinstance(name.ctx, ast.Load) else None
            if h is None or not h.ok or h.expr is None or h.defaults or h.stored:
                return name
            count += 1
            _EXPANDED.add(h.name)
            lam = ast.Lambda(args=ast.arguments(
                posonlyargs=[], args=[ast.arg(arg=p_) for p_ in h.params], vararg=None,
                kwonlyargs=[], kw_defaults=[], kwarg=None, defaults=[]), body=copy.deepcopy(h.expr))
            for sub in ast.walk(lam):
                ast.copy_location(sub, name)
            return lam

        def visit_Call(self, call):
            nonlocal count
            if isinstance(call.func, ast.Name):
                call.args = [self.visit(a) for a in call.args]
                for k in call.keywords:
                    k.value = self.visit(k.value)
            else:
                self.generic_visit(call)
            h = _resolve(call, helpers, scope_cls)
            if h is None or not h.ok or h.expr is None:
                return call
            bound = _bind(h, call, True, _CALLER_NAMES[0])
            if bound is None:
                return call
            prelude, mapping = bound
            if prelude:
                return call
            count += 1
            _EXPANDED.add(h.name)
            return _Subst(mapping).visit(copy.deepcopy(h.expr))

        def visit_FunctionDef(self, fn):
            return fn
    for field, value in ast.iter_fields(node):
        if isinstance(value, ast.expr):
            setattr(node, field, T().visit(value))
        elif isinstance(value, list):
            setattr(node, field, [T().visit(v) if isinstance(v, ast.expr) else v for v in value])
    return count


def inline_private_helpers(tree, modname=None, elsewhere=''):
    """Returns the number of call sites expanded."""
    LATER_HELPERS.clear()
    if modname is not None:
        LATER_HELPERS.update(later_helpers(tree, modname, elsewhere))
    total = 0
    expanded_names = set()
    for _round in range(4):
        helpers = {}
        for st in tree.body:
            if isinstance(st, ast.FunctionDef) and _is_private(st.name):
                helpers[(None, st.name)] = _Helper(st, None)
            if isinstance(st, ast.ClassDef):
                for sub in st.body:
                    if isinstance(sub, ast.FunctionDef) and _is_private(sub.name):
                        helpers[(st.name, sub.name)] = _Helper(sub, st.name)
        if not helpers:
            break
        count = 0

        def walk_blocks(node, scope_cls, inside_helper):
            nonlocal count
            for field in ('body', 'orelse', 'finalbody'):
                block = getattr(node, field, None)
                if not (isinstance(block, list) and block and isinstance(block[0], ast.stmt)):
                    continue
                new = []
                for st in block:
                    if isinstance(st, ast.ClassDef):
                        walk_blocks(st, st.name, False)
                        new.append(st)
                        continue
                    if isinstance(st, ast.FunctionDef):
                        saved = _CALLER_NAMES[0]
                        saved_fn = _CALLER_FN[0]
                        if not inside_helper:
                            _CALLER_NAMES[0] = frozenset(
                                {n.id for n in ast.walk(st) if isinstance(n, ast.Name)}
                                | {a.arg for a in st.args.args + st.args.kwonlyargs})
                            _CALLER_FN[0] = st
                        walk_blocks(st, scope_cls, True)
                        _CALLER_NAMES[0] = saved
                        _CALLER_FN[0] = saved_fn
                        new.append(st)
                        continue
                    rep = _expand_stmt(st, helpers, scope_cls) if inside_helper else None
                    if rep is not None:
                        count += 1
                        for r in rep:
                            ast.fix_missing_locations(ast.copy_location(r, st) if not hasattr(r, 'lineno') else r)
                        new.extend(rep)
                        continue
                    if inside_helper and not isinstance(st, (ast.FunctionDef, ast.ClassDef)):
                        count += _expand_exprs(st, helpers, scope_cls)
                    walk_blocks(st, scope_cls, inside_helper)
                    new.append(st)
                setattr(node, field, new)
            if isinstance(node, ast.Try):
                for h in node.handlers:
                    walk_blocks(h, scope_cls, inside_helper)
        _EXPANDED.clear()
        walk_blocks(tree, None, False)
        expanded_names |= set(_EXPANDED)
        total += count
        # drop helpers that are no longer referenced
        refs = set()
        for n in ast.walk(tree):
            if isinstance(n, ast.Name) and isinstance(n.ctx, ast.Load):
                refs.add(n.id)
            if isinstance(n, ast.Attribute):
                refs.add(n.attr)
        def prune(body):
            # only helpers that were read at their call sites go; a private
            # function nobody ever called stays visible to the rules
            return [st for st in body if not (isinstance(st, ast.FunctionDef) and _is_private(st.name)
                                              and st.name not in refs and st.name in expanded_names)]
        tree.body = prune(tree.body)
        for st in tree.body:
            if isinstance(st, ast.ClassDef):
                st.body = prune(st.body) or [ast.Pass()]
        if not count:
            break
    ast.fix_missing_locations(tree)
    return total
