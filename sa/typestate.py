"""Dirty/clean typestate of group pKa values with interprocedural summaries.

A group is *dirty* when one of the quantities that enter its total pKa
(determinant lists/values/labels, energy_volume, energy_local, model_pka) was
changed after the last ``calculate_total_pka()`` on it.  The analysis tracks a
set of dirty *designators* (normalised receiver expressions; ``*`` = some/all
groups) through each function with the structured flow engine and summarises
every function as

    dirty      designators left dirty at a normal exit, expressed over the
               function's own parameters (('param', i), ('self',)) or '*'
    mut_params list parameters the function mutates in place (determinant
               lists handed in by the caller)
    cleans_all every normal exit has passed a loop that recomputes all groups

Summaries are iterated to a fix-point over the call graph.  Boolean
parameters that no call site ever passes are specialised to their default.
"""
import ast

from .astutil import (dotted, norm, walk_no_nested, call_name, last_attr, func_params,
                      param_default)
from .flow import Analysis, Outcome

ENTRY = '<entry>'
LIST_MUTATORS = ('append', 'remove', 'extend', 'insert', 'pop', 'clear', 'sort', 'reverse')
SUM_FIELDS = ('energy_volume', 'energy_local', 'model_pka')
DET_FIELDS = ('value', 'label')


def _owner_of_det_list(expr):
    """``X.determinants[...]`` or ``X.determinants`` -> text of X, else None."""
    node = expr
    if isinstance(node, ast.Subscript):
        node = node.value
    if isinstance(node, ast.Attribute) and node.attr == 'determinants':
        return norm(node.value)
    return None


class Summary:
    def __init__(self):
        self.dirty = frozenset()
        self.mut_params = frozenset()
        self.cleans_all = False

    def key(self):
        return (self.dirty, self.mut_params, self.cleans_all)


class DirtyState(Analysis):
    def __init__(self, world, fid):
        self.world = world
        self.fid = fid
        self.fn = world.cg.funcs[fid]
        self.mod = world.cg.mod_of[fid]
        self.params = func_params(self.fn)
        self.mutated_params = set()
        self.sites = {id(n): (n, t, k) for n, t, k in world.cg.sites.get(fid, [])}
        self.det_loops = {}     # loop var -> owner designator / ('params', ...)
        self.stale_reads = []

    def initial(self):
        return frozenset([ENTRY])

    # -- helpers
    def _is_iterative(self, name):
        """Receiver known to be an iterative.Iterative (scratch determinants)."""
        base = name.split('.')[0]
        for arg in self.fn.args.args + self.fn.args.kwonlyargs:
            if arg.arg == base and arg.annotation is not None and \
                    'Iterative' in norm(arg.annotation):
                return True
        for node in walk_no_nested(self.fn):
            if isinstance(node, ast.For) and isinstance(node.target, ast.Name) \
                    and node.target.id == base:
                it = norm(node.iter)
                for n2 in walk_no_nested(self.fn):
                    if isinstance(n2, ast.AnnAssign) and norm(n2.target) == it and \
                            'Iterative' in norm(n2.annotation):
                        return True
            if isinstance(node, ast.Assign) and norm(node.targets[0]) == base and \
                    isinstance(node.value, ast.Call) and call_name(node.value) == 'Iterative':
                return True
        return False

    def _dirty(self, state, designator):
        if designator is None:
            return state | {'*'}
        if '.' not in designator and self._is_iterative(designator):
            return state
        return state | {designator}

    def _arg_designators(self, arg):
        """Group designators denoted by a call argument."""
        if isinstance(arg, (ast.List, ast.Tuple)):
            res = []
            for e in arg.elts:
                res.extend(self._arg_designators(e))
            return res
        owner = _owner_of_det_list(arg)
        if owner is not None:
            return [owner]
        text = norm(arg)
        return [text]

    def _apply_call(self, call, state):
        attr = last_attr(call)
        # cleaning
        if attr == 'calculate_total_pka' and isinstance(call.func, ast.Attribute):
            return state - {norm(call.func.value)}
        # direct list mutation
        if attr in LIST_MUTATORS and isinstance(call.func, ast.Attribute):
            recv = call.func.value
            owner = _owner_of_det_list(recv)
            if owner is not None:
                return self._dirty(state, owner)
            if isinstance(recv, ast.Name) and recv.id in self.params:
                # could be a determinant list handed in by the caller
                self.mutated_params.add(self.params.index(recv.id))
                return state
        site = self.sites.get(id(call))
        if site is None:
            return state
        _n, targets, _kind = site
        new = state
        cleaned = None
        for tgt in targets:
            if self.world.exclude(tgt):
                continue
            summ = self.world.summaries.get(tgt)
            if summ is None:
                continue
            callee = self.world.cg.funcs[tgt]
            cparams = func_params(callee)
            bound = isinstance(call.func, ast.Attribute) and cparams[:1] in (['self'], ['cls'])
            cur = state
            if summ.cleans_all:
                cur = frozenset()
            for item in summ.dirty:
                if item == '*':
                    cur = cur | {'*'}
                elif item == ('self',):
                    if bound:
                        cur = self._dirty(cur, norm(call.func.value))
                    else:
                        cur = cur | {'*'}
                elif item[0] == 'param':
                    arg = self._arg_at(call, callee, item[1], bound)
                    if arg is None:
                        continue
                    for d in self._arg_designators(arg):
                        cur = self._dirty(cur, d)
            for idx in summ.mut_params:
                arg = self._arg_at(call, callee, idx, bound)
                if arg is None:
                    continue
                owner = _owner_of_det_list(arg)
                if owner is not None:
                    cur = self._dirty(cur, owner)
                elif isinstance(arg, ast.Name) and arg.id in self.params:
                    self.mutated_params.add(self.params.index(arg.id))
            cleaned = cur if cleaned is None else (cleaned | cur)
        if cleaned is not None:
            new = cleaned
        return new

    def _arg_at(self, call, callee, idx, bound):
        cparams = func_params(callee)
        if idx >= len(cparams):
            return None
        name = cparams[idx]
        for kw in call.keywords:
            if kw.arg == name:
                return kw.value
        pos = idx - (1 if bound else 0)
        if 0 <= pos < len(call.args):
            return call.args[pos]
        if bound and idx == 0:
            return call.func.value
        return None

    def _apply_store(self, tgt, state):
        if isinstance(tgt, ast.Attribute):
            base = tgt.value
            if tgt.attr in SUM_FIELDS:
                return self._dirty(state, norm(base))
            if tgt.attr == 'determinants':
                return self._dirty(state, norm(base))
            if tgt.attr in DET_FIELDS and isinstance(base, ast.Name):
                owner = self.det_loops.get(base.id)
                if owner is None:
                    # a determinant of unknown origin
                    if self._looks_like_determinant(base.id):
                        return state | {'*'}
                    return state
                if isinstance(owner, tuple):
                    self.mutated_params.update(owner[1])
                    return state
                return self._dirty(state, owner)
        if isinstance(tgt, ast.Subscript):
            owner = _owner_of_det_list(tgt.value) or _owner_of_det_list(tgt)
            if owner is not None:
                return self._dirty(state, owner)
            # `lst[:] = saved` / `lst[i] = d` through a local that may hold a
            # determinant list: a loop target over (or a local bound to) something
            # built from `.determinants`
            if isinstance(tgt.value, ast.Name):
                owners = self._det_list_owners(tgt.value.id)
                for o in sorted(owners):
                    state = state | {'*'} if o == '*' else self._dirty(state, o)
        return state

    def _det_list_owners(self, name):
        """Groups whose determinant lists the local ``name`` may hold: the local
        is bound to, or is a loop target over, something built from
        ``X.determinants``.  X itself when it is a plain name or one of a literal
        tuple of names a comprehension runs over, '*' otherwise."""
        def owners_in(expr):
            res = set()
            comp_vars = {}
            for n in ast.walk(expr):
                if isinstance(n, ast.comprehension) and isinstance(n.target, ast.Name):
                    if isinstance(n.iter, (ast.Tuple, ast.List)) and all(
                            isinstance(e, ast.Name) for e in n.iter.elts):
                        comp_vars[n.target.id] = {e.id for e in n.iter.elts}
                    else:
                        comp_vars[n.target.id] = {'*'}
            for n in ast.walk(expr):
                if isinstance(n, ast.Attribute) and n.attr == 'determinants':
                    o = norm(n.value)
                    res |= comp_vars.get(o, {o})
            return res

        def source_of(nm, depth=0):
            res = set()
            if depth > 3:
                return res
            for node in walk_no_nested(self.fn):
                if isinstance(node, ast.Assign) and any(
                        isinstance(t, ast.Name) and t.id == nm for tg in node.targets for t in ast.walk(tg)):
                    res |= owners_in(node.value)
                    if isinstance(node.value, ast.Name):
                        res |= source_of(node.value.id, depth + 1)
                if isinstance(node, ast.For) and any(
                        isinstance(t, ast.Name) and t.id == nm for t in ast.walk(node.target)):
                    res |= owners_in(node.iter)
                    for sub in ast.walk(node.iter):
                        if isinstance(sub, ast.Name) and sub.id != nm:
                            res |= source_of(sub.id, depth + 1)
            return res
        return source_of(name)

    def _looks_like_determinant(self, name):
        low = name.lower()
        return 'det' in low

    def _scan(self, node, state):
        """Apply the effects of every call inside an expression/statement."""
        for sub in walk_no_nested(node):
            if isinstance(sub, ast.Call):
                state = self._apply_call(sub, state)
        return state

    # -- Analysis interface
    def transfer(self, stmt, state):
        if isinstance(stmt, (ast.FunctionDef, ast.AsyncFunctionDef, ast.ClassDef)):
            return state
        state = self._scan(stmt, state)
        if isinstance(stmt, ast.Assign):
            for tgt in stmt.targets:
                state = self._apply_store(tgt, state)
                # alias: x = R.determinants[...]
                if isinstance(tgt, ast.Name):
                    owner = _owner_of_det_list(stmt.value)
                    if owner is not None:
                        self.det_loops[tgt.id + '#list'] = owner
        elif isinstance(stmt, ast.AugAssign):
            state = self._apply_store(stmt.target, state)
            # x += y resolves to __iadd__ on groups
            for tgt in self.world.cg.methods_by_name.get('__iadd__', []):
                summ = self.world.summaries.get(tgt)
                if isinstance(stmt.op, ast.Add) and summ and ('self',) in summ.dirty \
                        and self.world.is_group_expr(self.fn, stmt.target):
                    state = self._dirty(state, norm(stmt.target))
        return state

    def eval_test(self, expr, state):
        return self._scan(expr, state)

    def assume(self, test, polarity, state):
        # specialise boolean parameters that no caller ever passes
        if isinstance(test, ast.Name) and test.id in self.params:
            default = param_default(self.fn, test.id)
            if isinstance(default, ast.Constant) and isinstance(default.value, bool) \
                    and not self.world.param_ever_passed(self.fid, test.id):
                return state if default.value == polarity else None
        return state

    def bind_loop(self, stmt, state):
        state = self._scan(stmt.iter, state)
        names = [n.id for n in ast.walk(stmt.target) if isinstance(n, ast.Name)]
        for name in names:
            stale = {d for d in state if d == name or d.startswith(name + '.')}
            if stale:
                state = (state - stale) | {'*'}
        # loop over a determinant list: remember the owner
        it = stmt.iter
        if isinstance(it, ast.Call) and call_name(it) in ('enumerate', 'list', 'reversed') and it.args:
            it = it.args[0]
        owner = _owner_of_det_list(it)
        tgt = stmt.target
        if isinstance(tgt, ast.Tuple) and tgt.elts and isinstance(tgt.elts[-1], ast.Name):
            tgt = tgt.elts[-1]
        if isinstance(tgt, ast.Name):
            if owner is not None:
                self.det_loops[tgt.id] = owner
            elif isinstance(it, ast.Name):
                if it.id in self.params:
                    self.det_loops[tgt.id] = ('params', (self.params.index(it.id),))
                else:
                    # local list filled from parameter lists
                    src = set()
                    for node in walk_no_nested(self.fn):
                        if isinstance(node, ast.For) and isinstance(node.iter, ast.Name) \
                                and node.iter.id in self.params:
                            for c in ast.walk(node):
                                if isinstance(c, ast.Call) and last_attr(c) == 'append' \
                                        and norm(c.func.value) == it.id:
                                    src.add(self.params.index(node.iter.id))
                        # ... or written as the comprehension / copy of a parameter list
                        if isinstance(node, ast.Assign) and len(node.targets) == 1 \
                                and norm(node.targets[0]) == it.id:
                            src |= self._param_sources(node.value)
                    if src:
                        self.det_loops[tgt.id] = ('params', tuple(sorted(src)))
        return state

    def _param_sources(self, val):
        """Indices of the parameter lists whose elements make up the list value
        ``val``: ``[d for d in p if c]``, ``list(p)``, ``p[:]``, ``sorted(p)``,
        ``p + q``.  Empty when some element may come from elsewhere."""
        if isinstance(val, ast.Name):
            return {self.params.index(val.id)} if val.id in self.params else set()
        if isinstance(val, (ast.ListComp, ast.GeneratorExp)):
            if len(val.generators) == 1 and isinstance(val.generators[0].target, ast.Name) \
                    and isinstance(val.elt, ast.Name) and val.elt.id == val.generators[0].target.id:
                return self._param_sources(val.generators[0].iter)
            return set()
        if isinstance(val, ast.Call) and call_name(val) in ('list', 'sorted', 'tuple', 'reversed') \
                and len(val.args) == 1:
            return self._param_sources(val.args[0])
        if isinstance(val, ast.Subscript) and isinstance(val.slice, ast.Slice):
            return self._param_sources(val.value)
        if isinstance(val, ast.BinOp) and isinstance(val.op, ast.Add):
            a, b = self._param_sources(val.left), self._param_sources(val.right)
            return a | b if a and b else set()
        return set()

    def run_stmt(self, stmt, state):
        if isinstance(stmt, ast.For) and self._is_clean_all_loop(stmt):
            return Outcome(frozenset())
        return Analysis.run_stmt(self, stmt, state)

    def _is_clean_all_loop(self, stmt):
        from .astutil import effective
        body = effective(stmt.body)
        if not (isinstance(stmt.target, ast.Name) and len(body) == 1
                and isinstance(body[0], ast.Expr)
                and isinstance(body[0].value, ast.Call) and not stmt.orelse):
            return False
        call = body[0].value
        if last_attr(call) != 'calculate_total_pka' or norm(call.func.value) != stmt.target.id:
            return False
        it = stmt.iter
        return isinstance(it, ast.Attribute) and it.attr == 'groups'


class World:
    """Summaries for all functions of interest."""

    def __init__(self, cg, exclude, funcs):
        self.cg = cg
        self.exclude = exclude
        self.fids = sorted(funcs)
        self.summaries = {fid: Summary() for fid in self.fids}
        self._passed = {}
        self.exit_states = {}
        self.rounds = 0

    def is_group_expr(self, fn, expr):
        """Heuristic: ``x += y`` is a group accumulation when x was assigned
        from ``.clone()`` in this function."""
        name = norm(expr)
        for node in walk_no_nested(fn):
            if isinstance(node, ast.Assign) and norm(node.targets[0]) == name \
                    and isinstance(node.value, ast.Call) and last_attr(node.value) == 'clone':
                return True
        return False

    def param_ever_passed(self, fid, pname):
        key = (fid, pname)
        if key in self._passed:
            return self._passed[key]
        callee = self.cg.funcs[fid]
        cparams = func_params(callee)
        idx = cparams.index(pname)
        res = False
        for src, sites in self.cg.sites.items():
            for call, targets, _k in sites:
                if fid not in targets:
                    continue
                bound = isinstance(call.func, ast.Attribute) and cparams[:1] in (['self'], ['cls'])
                if any(kw.arg == pname for kw in call.keywords) or \
                        any(kw.arg is None for kw in call.keywords):
                    res = True
                pos = idx - (1 if bound else 0)
                if pos < len(call.args):
                    res = True
        self._passed[key] = res
        return res

    def solve(self, max_rounds=12):
        for rnd in range(max_rounds):
            self.rounds = rnd + 1
            changed = False
            for fid in self.fids:
                new = self._summarise(fid)
                if new.key() != self.summaries[fid].key():
                    self.summaries[fid] = new
                    changed = True
            if not changed:
                return
        raise RuntimeError('typestate summaries did not stabilise')

    def _summarise(self, fid):
        ana = DirtyState(self, fid)
        exits = ana.exit_states(ana.fn)
        self.exit_states[fid] = exits
        params = ana.params
        dirty = set()
        cleans = bool(exits)
        for _stmt, st in exits:
            if ENTRY in st:
                cleans = False
            for d in st:
                if d == ENTRY:
                    continue
                base = d.split('.')[0].split('[')[0]
                if d == 'self' and params[:1] == ['self']:
                    dirty.add(('self',))
                elif d in params:
                    dirty.add(('param', params.index(d)))
                elif base in params and base != 'self':
                    # a field/element of a parameter (e.g. interaction[0]): the
                    # caller cannot name it -> all
                    dirty.add('*')
                else:
                    dirty.add('*')
        summ = Summary()
        summ.dirty = frozenset(dirty)
        summ.mut_params = frozenset(ana.mutated_params)
        summ.cleans_all = cleans
        return summ

    def describe(self, fid):
        s = self.summaries[fid]
        return {'dirty': sorted(str(d) for d in s.dirty),
                'mut_params': sorted(s.mut_params), 'cleans_all': s.cleans_all}
