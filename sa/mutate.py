"""Checker self-test: apply named source edits to scratch copies of the
package (outside /repo and /verif), run the check with --root, compare the
verdict with the expectation, remove the copy.  Results are evidence only;
they never change the exit status of a property check."""
import concurrent.futures
import importlib
import os
import random
import shutil
import subprocess
import sys
import tempfile

VERIF = os.path.dirname(os.path.dirname(os.path.abspath(__file__)))
PYTHON = '/venv/bin/python' if os.access('/venv/bin/python', os.X_OK) else sys.executable


def scratch_base():
    for cand in (os.environ.get('VERIF_SCRATCH'), os.environ.get('TMPDIR'), '/var/tmp', '/tmp'):
        if cand and os.path.isdir(cand) and os.access(cand, os.W_OK):
            return cand
    return tempfile.gettempdir()


def make_copy(root):
    base = tempfile.mkdtemp(prefix='propka_sa_', dir=scratch_base())
    shutil.copytree(os.path.join(root, 'propka'), os.path.join(base, 'propka'),
                    ignore=shutil.ignore_patterns('__pycache__', '*.pyc'))
    return base


def apply_edits(base, edits):
    """edits: list of (relative file, old, new[, count]).  Returns None on
    success or a reason string when an edit does not apply."""
    for edit in edits:
        rel, old, new = edit[0], edit[1], edit[2]
        count = edit[3] if len(edit) > 3 else 1
        path = os.path.join(base, 'propka', rel)
        try:
            with open(path, encoding='utf-8') as handle:
                src = handle.read()
        except OSError:
            return 'file missing: ' + rel
        found = src.count(old)
        if found == 0 or (count and found != count):
            return 'edit does not apply to {0} (found {1} occurrence(s))'.format(rel, found)
        src = src.replace(old, new)
        with open(path, 'w', encoding='utf-8') as handle:
            handle.write(src)
        if rel.endswith('.py'):
            try:
                compile(src, path, 'exec', dont_inherit=True)
            except SyntaxError as err:
                return 'variant does not compile: ' + str(err)[:120]
    return None


def run_variant(prop, root, variant):
    base = make_copy(root)
    try:
        why = apply_edits(base, variant['edits'])
        if why is not None:
            return {'name': variant['name'], 'status': 'skipped', 'why': why}
        proc = subprocess.run(
            [PYTHON, os.path.join(VERIF, 'run_check.py'), prop,
             '--root', base, '--tier', 'quick'],
            capture_output=True, text=True, timeout=300,
            env=dict(os.environ, PYTHONDONTWRITEBYTECODE='1'))
        out = proc.stdout
        fired = [line for line in out.splitlines() if line.startswith('  rule=')]
        res = {'name': variant['name'], 'exit': proc.returncode,
               'fired': [f.strip() for f in fired][:6]}
        expect = variant.get('expect', 'violation')
        if expect == 'violation':
            ok = proc.returncode == 1
            rule = variant.get('rule')
            if ok and rule:
                ok = any(('rule=' + rule) in f for f in fired)
            res['status'] = 'fired_as_expected' if ok else 'unexpected'
        elif expect == 'pass':
            res['status'] = 'silent_as_expected' if proc.returncode == 0 else 'unexpected'
        elif expect == 'known-cleared':
            # repaired variant: no KNOWN-FINDING with the given id may remain
            fid = variant.get('finding', '')
            still = [l for l in out.splitlines()
                     if l.startswith('KNOWN-FINDING') and fid in l]
            res['status'] = ('silent_as_expected'
                             if proc.returncode == 0 and not still else 'unexpected')
        if res['status'] == 'unexpected':
            res['output_tail'] = out.splitlines()[-8:] + proc.stderr.splitlines()[-4:]
        return res
    finally:
        shutil.rmtree(base, ignore_errors=True)


def load_variants(prop):
    try:
        mod = importlib.import_module('selftest.' + prop.lower())
    except ImportError:
        return []
    return list(getattr(mod, 'VARIANTS', []))


def selftest(prop, root, seed=0, jobs=16):
    variants = load_variants(prop)
    random.Random(seed).shuffle(variants)
    results = []
    with concurrent.futures.ThreadPoolExecutor(max_workers=jobs) as pool:
        futs = [pool.submit(run_variant, prop, root, v) for v in variants]
        for fut in futs:
            try:
                results.append(fut.result())
            except Exception as err:  # self-test trouble is evidence, not a verdict
                results.append({'name': '?', 'status': 'unexpected', 'why': repr(err)})
    summary = {'variants': len(results)}
    for key in ('fired_as_expected', 'silent_as_expected', 'skipped', 'unexpected'):
        summary[key] = sum(1 for r in results if r['status'] == key)
    summary['unexpected_detail'] = [r for r in results if r['status'] == 'unexpected']
    summary['skipped_detail'] = [r for r in results if r['status'] == 'skipped']
    summary['results'] = sorted(
        ({'name': r['name'], 'status': r['status']} for r in results),
        key=lambda r: r['name'])
    return summary


def main(argv=None):
    """python -m sa.mutate Cxx [variant-name ...]  (developer entry point)"""
    argv = argv or sys.argv[1:]
    prop = argv[0].upper()
    sys.path.insert(0, VERIF)
    variants = load_variants(prop)
    if len(argv) > 1:
        variants = [v for v in variants if v['name'] in argv[1:]]
    bad = 0
    with concurrent.futures.ThreadPoolExecutor(max_workers=16) as pool:
        for res in pool.map(lambda v: run_variant(prop, '/repo', v), variants):
            print('{0:22s} {1} {2}'.format(res['status'], res['name'],
                                            res.get('why', '') or res.get('fired', '')))
            if res['status'] in ('unexpected', 'skipped'):
                bad += 1        # a variant whose edit no longer applies tests nothing
                print('    ', '\n     '.join(res.get('output_tail', [])))
    print('{0} variants, {1} unexpected'.format(len(variants), bad))
    return 1 if bad else 0


if __name__ == '__main__':
    sys.exit(main())
