G, E, D, P, I, L = 'group.py', 'energy.py', 'determinants.py', 'protonate.py', 'input.py', 'ligand.py'
VARIANTS = [
    {'name': 'cterm-carbon-guard-removed', 'rule': 'C12.R1',
     'edits': [(G, """        if not the_carbons:
            self.set_center([self.atom])
            # TODO - perhaps it would be better to ignore this group completely
            # if the carbon is missing from this residue?
        else:
            the_other_oxygen = the_carbons[0].get_bonded_elements('O')
            the_other_oxygen.remove(self.atom)
            # set the center and interaction atoms
            the_oxygens = [self.atom] + the_other_oxygen
            self.set_center(the_oxygens)
            self.set_interaction_atoms(the_oxygens, the_oxygens)""", """        if True:
            the_other_oxygen = the_carbons[0].get_bonded_elements('O')
            the_other_oxygen.remove(self.atom)
            # set the center and interaction atoms
            the_oxygens = [self.atom] + the_other_oxygen
            self.set_center(the_oxygens)
            self.set_interaction_atoms(the_oxygens, the_oxygens)""")]},
    {'name': 'coo-second-oxygen-indexed', 'rule': 'C12.R1',
     'edits': [(G, "        self.set_interaction_atoms(the_oxygens, the_oxygens)\n\n\nclass HISGroup", "        self.set_interaction_atoms(the_oxygens, the_oxygens)\n        self.second = the_oxygens[1]\n\n\nclass HISGroup")]},
    {'name': 'amide-guard-removed', 'rule': 'C12.R1',
     'edits': [(G, """        if not (the_oxygen and the_nitrogen):
            _LOGGER.warning(f"Missing N or O atom: {self}")
            self.set_center([self.atom])
            return
""", "")]},
    {'name': 'coo-center-unguarded', 'rule': 'C12.R2',
     'edits': [(G, """        if the_oxygens:
            self.set_center(the_oxygens)
        else:
            self.set_center([self.atom])
            # TODO - perhaps it would be better to ignore this group completely
            # if the oxygen is missing from this residue?
        self.set_interaction_atoms(the_oxygens, the_oxygens)""", """        self.set_center(the_oxygens)
        self.set_interaction_atoms(the_oxygens, the_oxygens)""")]},
    {'name': 'new-assert-on-structure', 'rule': 'C12.R2',
     'edits': [(G, "        ring_atoms = propka.ligand.is_ring_member(self.atom)\n", "        ring_atoms = propka.ligand.is_ring_member(self.atom)\n        assert len(ring_atoms) == 5\n")]},
    {'name': 'hbond-none-check-to-assert', 'rule': 'C12.R2',
     'edits': [(E, """    if closest_atom1 is None or closest_atom2 is None:
        _LOGGER.warning(
            'Side chain interaction failed for {0:s} and {1:s}'.format(
                group1.label, group2.label))
        return None
""", """    assert closest_atom1 is not None and closest_atom2 is not None
""")]},
    {'name': 'heavy-atom-parent-indexed', 'rule': 'C12.R1',
     'edits': [(E, """        if closest_atom2.element == 'H':
            heavy_atom = closest_atom2.bonded_atoms[0]""", """        if closest_atom2.element != 'C':
            heavy_atom = closest_atom2.bonded_atoms[0]""")]},
    {'name': 'expected-table-key-dropped', 'rule': 'C12.R3',
     'edits': [(G, "    'O3': {'O': 1}, 'O2': {'O': 1}, 'SH': {'S': 1}, 'CG': {'N': 3},\n", "    'O3': {'O': 1}, 'O2': {'O': 1}, 'CG': {'N': 3},\n")]},
    {'name': 'bond-length-lookup-unguarded', 'rule': 'C12.R3',
     'edits': [(P, "        dist = 1.0\n        if element in list(self.bond_lengths.keys()):\n            dist = self.bond_lengths[element]", "        dist = self.bond_lengths[element]\n        if False:\n            pass")]},
    {'name': 'empty-input-keyerror', 'rule': 'C12.R4',
     'edits': [(I, "            raise ValueError(str_)\n        mol_container.conformations = conformations", "            raise KeyError(str_)\n        mol_container.conformations = conformations")]},
    {'name': 'empty-check-after-use', 'rule': 'C12.R4',
     'edits': [(I, """        if len(conformations) == 0:
            str_ = ('Error: The pdb file does not seem to contain any '
                    'molecular conformations')
            raise ValueError(str_)
        mol_container.conformations = conformations
        mol_container.conformation_names = conformation_names
        mol_container.top_up_conformations()
""", """        mol_container.conformations = conformations
        mol_container.conformation_names = conformation_names
        mol_container.top_up_conformations()
        if len(conformations) == 0:
            str_ = ('Error: The pdb file does not seem to contain any '
                    'molecular conformations')
            raise ValueError(str_)
""")]},
    {'name': 'precheck-raises', 'rule': 'C12.R4',
     'edits': [('lib.py', "                    _LOGGER.warning(str_)\n                continue\n", "                    raise ValueError(str_)\n                continue\n")]},
    {'name': 'bbc-condition-relaxed', 'rule': 'C12.L8',
     'edits': [(G, "        if atom.count_bonded_elements('O') == 1:\n            return BBCGroup(atom)", "        if atom.count_bonded_elements('O') <= 1:\n            return BBCGroup(atom)")]},
    {'name': 'guard-as-early-return-silent', 'expect': 'pass',
     'edits': [(G, """        if not the_carbons:
            self.set_center([self.atom])
            # TODO - perhaps it would be better to ignore this group completely
            # if the carbon is missing from this residue?
        else:
            the_other_oxygen = the_carbons[0].get_bonded_elements('O')
            the_other_oxygen.remove(self.atom)
            # set the center and interaction atoms
            the_oxygens = [self.atom] + the_other_oxygen
            self.set_center(the_oxygens)
            self.set_interaction_atoms(the_oxygens, the_oxygens)""", """        if not the_carbons:
            self.set_center([self.atom])
            return
        the_other_oxygen = the_carbons[0].get_bonded_elements('O')
        the_other_oxygen.remove(self.atom)
        # set the center and interaction atoms
        the_oxygens = [self.atom] + the_other_oxygen
        self.set_center(the_oxygens)
        self.set_interaction_atoms(the_oxygens, the_oxygens)""")]},
    {'name': 'revert-fix-F62-optargs-splatted', 'rule': 'C12.R4',
     'edits': [('run.py', "    options = loadOptions(list(optargs) if optargs else None)", "    options = loadOptions(*(optargs or []))")]},
    {'name': 'grid-splatted-from-unknown-sequence', 'rule': 'C12.R4',
     'edits': [('molecular_container.py', "        charge_profile: List[List[float]] = []\n        for ph in make_grid(*grid):", "        charge_profile: List[List[float]] = []\n        for ph in make_grid(*self.options.grid):")]},
    {'name': 'bond-appended-without-membership-test', 'rule': 'C12.L1',
     'edits': [('bonds.py', "        if atom1 not in atom2.bonded_atoms:\n            atom2.bonded_atoms.append(atom1)\n        if atom2 not in atom1.bonded_atoms:\n            atom1.bonded_atoms.append(atom2)", "        atom2.bonded_atoms.append(atom1)\n        atom1.bonded_atoms.append(atom2)")]},
    {'name': 'others-by-comprehension-silent', 'expect': 'pass',
     'edits': [(P, """                other_atom_indices = []
                for i, bonded_atom in enumerate(
                        atom.bonded_atoms[0].bonded_atoms):
                    if bonded_atom != atom:
                        other_atom_indices.append(i)
""", """                other_atom_indices = [
                    i for i, bonded_atom in enumerate(
                        atom.bonded_atoms[0].bonded_atoms)
                    if bonded_atom != atom]
""")]},
    {'name': 'others-filtered-by-element', 'rule': 'C12.R1',
     'edits': [(P, """                    if bonded_atom != atom:
                        other_atom_indices.append(i)
""", """                    if bonded_atom.element != 'H':
                        other_atom_indices.append(i)
""")]},
    {'name': 'second-assert-after-store', 'rule': 'C12.R2',
     'edits': [('coupled_groups.py', "        # Swap interactions and re-calculate pKa values\n", "        self.parameters = group1.parameters\n        assert self.parameters is not None\n        # Swap interactions and re-calculate pKa values\n")]},
    {'name': 'second-assert-repeats-silent', 'expect': 'pass',
     'edits': [('coupled_groups.py', "        # Swap interactions and re-calculate pKa values\n", "        assert self.parameters is not None\n        # Swap interactions and re-calculate pKa values\n")]},
    {'name': 'group-object-under-s-specification', 'rule': 'C12.R2',
     'edits': [('group.py', "            _LOGGER.warning('{0:s}'.format(str(self)))", "            _LOGGER.warning('{0:s}'.format(self))")]},
    {'name': 'atom-object-under-s-specification', 'rule': 'C12.R2',
     'edits': [('energy.py', "            'Side chain interaction failed for {0:s} and {1:s}'.format(\n                group1.label, group2.label))", "            'Side chain interaction failed for {0:s} and {1:s}'.format(\n                group1.label, group2))")]},
]
