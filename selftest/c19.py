H = 'hybrid36.py'
VARIANTS = [
    {'name': 'revert-fix-F12-digit-validation', 'rule': 'C19.R2',
     'edits': [(H, """        for char in input_string[1:]:
            if char not in _HYBRID36_DIGITS:
                raise ValueError(
                    value_error_message.format(original_input_string))
        return sign * int(input_string)""", "        return sign * int(input_string)")]},
    {'name': 'upper-offset-wrong-base', 'rule': 'C19.R1',
     'edits': [(H, "reference = - (10 * 36 ** (num_chars - 1) - 10 ** num_chars)", "reference = - (10 * 36 ** (num_chars - 1) - 10 ** (num_chars - 1))")]},
    {'name': 'lower-offset-16-to-15', 'rule': 'C19.R1',
     'edits': [(H, "reference = (16 * 36 ** (num_chars - 1) + 10 ** num_chars)", "reference = (15 * 36 ** (num_chars - 1) + 10 ** num_chars)")]},
    {'name': 'lower-offset-off-by-one', 'rule': 'C19.R1',
     'edits': [(H, "reference = (16 * 36 ** (num_chars - 1) + 10 ** num_chars)", "reference = (16 * 36 ** (num_chars - 1) + 10 ** num_chars) + 1")]},
    {'name': 'drop-char-loop', 'rule': 'C19.R2',
     'edits': [(H, """    for char in input_string[1:]:
        if char not in _hybrid36_set:
            raise ValueError(value_error_message.format(original_input_string))
""", "")]},
    {'name': 'mixed-case-alphabet', 'rule': 'C19.R2',
     'edits': [(H, "_HYBRID36_UPPER_SET = _HYBRID36_UPPER_CHARS | _HYBRID36_DIGITS", "_HYBRID36_UPPER_SET = _HYBRID36_UPPER_CHARS | _HYBRID36_LOWER_CHARS | _HYBRID36_DIGITS")]},
    {'name': 'else-returns-zero', 'rule': 'C19.R2',
     'edits': [(H, "    else:\n        raise ValueError(value_error_message.format(original_input_string))\n\n    # Check", "    else:\n        return 0\n\n    # Check")]},
    {'name': 'empty-check-removed', 'rule': 'C19.R2',
     'edits': [(H, "    if len(input_string) == 0:\n        raise ValueError(value_error_message.format(input_string))\n", "")]},
    {'name': 'raise-keyerror', 'rule': 'C19.R2',
     'edits': [(H, "    if len(input_string) == 0:\n        raise ValueError(", "    if len(input_string) == 0:\n        raise KeyError(")]},
    {'name': 'sign-dropped', 'rule': 'C19.R1',
     'edits': [(H, "        sign = -1\n", "        sign = 1\n")]},
    {'name': 'serial-used-as-weight', 'rule': 'C19.R3',
     'edits': [('energy.py', "            dv_inc = dvol/max(min_dist_4th, sq_dist*sq_dist)", "            dv_inc = dvol/max(min_dist_4th, sq_dist*sq_dist) + 0.0*atom.numb")]},
    {'name': 'decode-on-wrong-columns', 'rule': 'C19.R3',
     'edits': [('atom.py', "hybrid36.decode(line[6:11])", "hybrid36.decode(line[6:12])")]},
    {'name': 'equivalent-offset-form-silent', 'expect': 'pass',
     'edits': [(H, "reference = - (10 * 36 ** (num_chars - 1) - 10 ** num_chars)", "reference = 10 ** num_chars - 10 * 36 ** (num_chars - 1)")]},
    {'name': 'revert-fix-F15-strip-all-whitespace', 'rule': 'C19.R2',
     'edits': [(H, 'input_string = input_string.strip(" ")', 'input_string = input_string.strip()')]},
    {'name': 'blanks-stripped-again-after-the-sign', 'rule': 'C19.R2',
     'edits': [('hybrid36.py', "        input_string = input_string[1:]\n    else:", "        input_string = input_string[1:].strip(\" \")\n    else:")]},
    {'name': 'sign-test-on-unstripped-field', 'rule': 'C19.R2',
     'edits': [('hybrid36.py', "    if input_string.startswith(\"-\"):", "    if original_input_string.startswith(\"-\"):")]},
]
