V = 'vector_algebra.py'
VARIANTS = [
    {'name': 'revert-fix-F1-antiparallel-z', 'rule': 'C20.R1',
     'edits': [(V, """    elif axis.z < 0:
        # axis is anti-parallel to the z-axis
        beta = math.pi
        rot_y = rotate_atoms_around_y_axis(beta)
        vec = rot_y @ vec
        axis = rot_y @ axis
""", "")]},
    {'name': 'y-alignment-ignores-z', 'rule': 'C20.R1',
     'edits': [(V, """        beta = -math.copysign(1.0, axis.x)*math.atan2(
            abs(axis.x), axis.z)""", """        beta = -math.copysign(1.0, axis.x)*math.pi/2.0""")]},
    {'name': 'matrix-sign-error', 'rule': 'C20.R2',
     'edits': [(V, "        a12i=-math.sin(theta),", "        a12i=math.sin(theta),")]},
    {'name': 'matrix-y-transposed', 'rule': 'C20.R2',
     'edits': [(V, "        a13i=math.sin(theta),", "        a13i=-math.sin(theta),"),
               (V, "        a31i=-math.sin(theta),", "        a31i=math.sin(theta),")]},
    {'name': 'matmul-wrong-column', 'rule': 'C20.R2',
     'edits': [(V, "self.a21 * v.x + self.a22 * v.y + self.a23 * v.z + self.a24", "self.a21 * v.x + self.a22 * v.y + self.a32 * v.z + self.a24")]},
    {'name': 'undo-gamma-dropped', 'rule': 'C20.R3',
     'edits': [(V, "    rot_z = rotate_atoms_around_z_axis(-gamma)\n    vec = rot_z @ vec\n", "")]},
    {'name': 'undo-wrong-order', 'rule': 'C20.R3',
     'edits': [(V, """    rot_y = rotate_atoms_around_y_axis(-beta)
    vec = rot_y @ vec
    rot_z = rotate_atoms_around_z_axis(-gamma)
    vec = rot_z @ vec
""", """    rot_z = rotate_atoms_around_z_axis(-gamma)
    vec = rot_z @ vec
    rot_y = rotate_atoms_around_y_axis(-beta)
    vec = rot_y @ vec
""")]},
    {'name': 'undo-not-negated', 'rule': 'C20.R3',
     'edits': [(V, "rot_y = rotate_atoms_around_y_axis(-beta)", "rot_y = rotate_atoms_around_y_axis(beta)")]},
    {'name': 'axis-not-realigned', 'rule': 'C20.R3',
     'edits': [(V, "        vec = rot_z @ vec\n        axis = rot_z @ axis\n", "        vec = rot_z @ vec\n")]},
    {'name': 'new-caller-in-scoring', 'rule': 'C20.R4',
     'edits': [('energy.py', "from propka.calculations import squared_distance, get_smallest_distance", "from propka.calculations import squared_distance, get_smallest_distance\nfrom propka.vector_algebra import rotate_vector_around_an_axis\n\n\ndef _spin(v):\n    return rotate_vector_around_an_axis(1.0, v, v)\n")]},
    {'name': 'rename-locals-silent', 'expect': 'pass',
     'edits': [(V, "gamma", "g_angle", 0)]},
    {'name': 'sense-taken-from-incoming-axis-for-both-alignments', 'rule': 'C20.R1',
     'edits': [(V, "    gamma = 0.0\n    if axis.y != 0:", "    sense = 1.0 if axis.x < 0 else -1.0\n    gamma = 0.0\n    if axis.y != 0:"),
               (V, "        beta = -math.copysign(1.0, axis.x)*math.atan2(", "        beta = sense*math.atan2(")]},
    {'name': 'sense-taken-from-realigned-axis-silent', 'expect': 'pass',
     'edits': [(V, "        beta = -math.copysign(1.0, axis.x)*math.atan2(", "        sense = 1.0 if axis.x < 0 else -1.0\n        beta = sense*math.atan2(")]},
    {'name': 'antiparallel-branch-turns-axis-only', 'rule': 'C20.R3',
     'edits': [(V, "        beta = math.pi\n        rot_y = rotate_atoms_around_y_axis(beta)\n        vec = rot_y @ vec\n", "        beta = math.pi\n        rot_y = rotate_atoms_around_y_axis(beta)\n")]},
    {'name': 'quarter-turn-by-hand-without-undo', 'rule': 'C20.R3',
     'edits': [(V, "        else:\n            gamma = math.pi/2.0\n        rot_z = rotate_atoms_around_z_axis(gamma)\n        vec = rot_z @ vec\n        axis = rot_z @ axis\n", "            rot_z = rotate_atoms_around_z_axis(gamma)\n            vec = rot_z @ vec\n            axis = rot_z @ axis\n        else:\n            vec = Vector(-vec.y, vec.x, vec.z)\n            axis = Vector(-axis.y, 0.0, axis.z)\n")]},
    {'name': 'z-alignment-duplicated-into-both-branches-silent', 'expect': 'pass',
     'edits': [(V, "        else:\n            gamma = math.pi/2.0\n        rot_z = rotate_atoms_around_z_axis(gamma)\n        vec = rot_z @ vec\n        axis = rot_z @ axis\n", "            rot_z = rotate_atoms_around_z_axis(gamma)\n            vec = rot_z @ vec\n            axis = rot_z @ axis\n        else:\n            gamma = math.pi/2.0\n            rot_z = rotate_atoms_around_z_axis(gamma)\n            vec = rot_z @ vec\n            axis = rot_z @ axis\n")]},
    {'name': 'revert-fix-F43-asin-acos-of-ratio', 'rule': 'C20.R5',
     'edits': [(V, "            gamma = -math.copysign(1.0, axis.x)*math.atan2(\n                axis.y, abs(axis.x))", "            gamma = -axis.x/abs(axis.x)*math.asin(\n                axis.y/(math.sqrt(axis.x*axis.x + axis.y*axis.y)))"),
               (V, "        beta = -math.copysign(1.0, axis.x)*math.atan2(\n            abs(axis.x), axis.z)", "        beta = -axis.x/abs(axis.x)*math.acos(\n            axis.z/math.sqrt(axis.x*axis.x + axis.z*axis.z))")]},
    {'name': 'acos-with-hypot', 'rule': 'C20.R5',
     'edits': [(V, "        beta = -math.copysign(1.0, axis.x)*math.atan2(\n            abs(axis.x), axis.z)", "        beta = -math.copysign(1.0, axis.x)*math.acos(\n            axis.z/math.hypot(axis.x, axis.z))")]},
]
