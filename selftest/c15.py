CG, G, CC, M = 'coupled_groups.py', 'group.py', 'conformation_container.py', 'molecular_container.py'
VARIANTS = [
    {'name': 'early-return-between-swaps', 'rule': 'C15.R1',
     'edits': [(CG, """        pka_shift2 = swapped_pka2 - default_pka2
        # Swap back to original protonation state""", """        pka_shift2 = swapped_pka2 - default_pka2
        if max(abs(pka_shift1), abs(pka_shift2)) > 50.0:
            return {'coupling_factor': -1.0}
        # Swap back to original protonation state""")]},
    {'name': 'swap-back-removed', 'rule': 'C15.R1',
     'edits': [(CG, """        # Swap back to original protonation state
        self.swap_interactions([group1], [group2])
""", """        # Swap back to original protonation state
""")]},
    {'name': 'swap-back-different-arguments', 'rule': 'C15.R1',
     'edits': [(CG, """        # Swap back to original protonation state
        self.swap_interactions([group1], [group2])
""", """        # Swap back to original protonation state
        self.swap_interactions([group2], [group2])
""")]},
    {'name': 'swap-no-recompute', 'rule': 'C15.R1',
     'edits': [(CG, """                # re-calculate pKa values
                group1.calculate_total_pka()
                group2.calculate_total_pka()
""", ""),
               (CG, """            determinant_list[:] = original
        group1.calculate_total_pka()
        group2.calculate_total_pka()
        # check difference in free energy""", """            determinant_list[:] = original
        # check difference in free energy""")]},
    {'name': 'transfer-asymmetric', 'rule': 'C15.R1',
     'edits': [(CG, """            determinants1.append(det)
            determinants2.remove(det)""", """            determinants1.append(det)""")]},
    {'name': 'transfer-label-mixup', 'rule': 'C15.R1',
     'edits': [(CG, """        for det in from1to2:
            det.label = label1""", """        for det in from1to2:
            det.label = label2""")]},
    {'name': 'swap-sidechain-with-coulomb', 'rule': 'C15.R1',
     'edits': [(CG, """                self.transfer_determinant(group1.determinants['sidechain'],
                                          group2.determinants['sidechain'],""", """                self.transfer_determinant(group1.determinants['sidechain'],
                                          group2.determinants['coulomb'],""")]},
    {'name': 'print-swaps-unconditional', 'rule': 'C15.R2',
     'edits': [(CG, "        if verbose:\n            self.print_out_swaps(conformation)", "        if True:\n            self.print_out_swaps(conformation)")]},
    {'name': 'verbose-default-relied-on', 'rule': 'C15.R2',
     'edits': [(CC, "        NCCG.identify_non_covalently_coupled_groups(self, verbose=verbose)", "        NCCG.identify_non_covalently_coupled_groups(self)")]},
    {'name': 'verbose-from-other-flag', 'rule': 'C15.R2',
     'edits': [(M, "        verbose = self.options.display_coupled_residues\n", "        verbose = self.options.display_coupled_residues or self.options.protonate_all\n")]},
    {'name': 'one-directional-coupling', 'rule': 'C15.R4',
     'edits': [(G, """        if self not in other.non_covalently_coupled_groups:
            other.non_covalently_coupled_groups.append(self)
""", "")]},
    {'name': 'coupling-on-nonpositive-factor', 'rule': 'C15.R4',
     'edits': [(CG, "if data['coupling_factor'] > 0.0:", "if data['coupling_factor'] > -2.0:")]},
    {'name': 'star-on-covalent-coupling', 'rule': 'C15.R5',
     'edits': [(G, "                if len(self.non_covalently_coupled_groups) > 0:\n                    str_ += '*'", "                if len(self.covalently_coupled_groups) > 0:\n                    str_ += '*'")]},
    {'name': 'probe-switched-off-silent', 'rule': 'C15.R3',
     'edits': [(CG, "    do_prot_stat = True", "    do_prot_stat = False")]},
    {'name': 'try-finally-silent', 'expect': 'pass',
     'edits': [(CG, """        self.swap_interactions([group1], [group2])
        group1.calculate_total_pka()
        group2.calculate_total_pka()
        # store swapped energy and pka's""", """        self.swap_interactions([group1], [group2])
        group1.calculate_total_pka()
        group2.calculate_total_pka()
        group1.calculate_total_pka()
        # store swapped energy and pka's""")]},
    {'name': 'revert-fix-F23-order-not-restored', 'rule': 'C15.R1',
     'edits': [(CG, "        for determinant_list, original in saved_lists:\n            determinant_list[:] = original\n", "")]},
    {'name': 'revert-fix-F24-group-not-updated', 'rule': 'C15.R1',
     'edits': [(CG, "            if group1 is not None:\n                # keep the group reference in step with the label\n                det.group = group1\n", "")]},
    {'name': 'revert-fix-F25-marks-not-rebuilt', 'rule': 'C15.R4',
     'edits': [(M, "            avr_group.non_covalently_coupled_groups = partners\n", "            pass\n")]},
    {'name': 'averaged-partner-list-shared-by-all-groups', 'rule': 'C15.R4',
     'edits': [(M, "        for avr_group in avr_conformation.groups:\n            partners: list = []\n", "        partners: list = []\n        for avr_group in avr_conformation.groups:\n")]},
    {'name': 'averaged-partners-skip-after-first-found', 'rule': 'C15.R4',
     'edits': [(M, "        for avr_group in avr_conformation.groups:\n            partners: list = []\n", "        done: list = []\n        for avr_group in avr_conformation.groups:\n            partners: list = []\n"),
               (M, "                    if avr_other and avr_other not in partners:\n                        partners.append(avr_other)", "                    if avr_other and avr_other not in partners and avr_other not in done:\n                        partners.append(avr_other)\n                        done.append(avr_other)")]},
    {'name': 'marks-stored-inside-the-conformation-loop', 'rule': 'C15.R4',
     'edits': [('molecular_container.py', "                        partners.append(avr_other)\n            avr_group.non_covalently_coupled_groups = partners", "                        partners.append(avr_other)\n                avr_group.non_covalently_coupled_groups = list(partners)")]},
]
