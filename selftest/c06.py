E, CC, G, D, M = 'energy.py', 'conformation_container.py', 'group.py', 'determinants.py', 'molecular_container.py'
VARIANTS = [
    {'name': 'revert-fix-F7b-find-group', 'rule': 'C06.R1',
     'edits': [(CC, """            if (group_.atom.residue_label == group.atom.residue_label
                    and group_.atom.icode == group.atom.icode
                    and group_.atom.res_name == group.atom.res_name):""", """            if (group_.atom.residue_label == group.atom.residue_label
                    and group_.atom.res_name == group.atom.res_name):""")]},
    {'name': 'repair-F7a-desolvation-clears-finding', 'expect': 'known-cleared', 'finding': 'F7a',
     'edits': [(E, """        if (atom.res_num == group.atom.res_num
                and atom.chain_id == group.atom.chain_id):""", """        if (atom.res_num == group.atom.res_num
                and atom.chain_id == group.atom.chain_id
                and atom.icode == group.atom.icode):""")]},
    {'name': 'new-comparison-on-number-only', 'rule': 'C06.R1',
     'edits': [(D, "            if group1 == group2:\n                break\n            # do not calculate", "            if group1 == group2:\n                break\n            if group1.atom.res_num == group2.atom.res_num:\n                continue\n            # do not calculate")]},
    {'name': 'dict-keyed-by-label', 'rule': 'C06.R1',
     'edits': [(CC, "        penalised_labels = []\n        for all_groups", "        penalised_labels = []\n        seen = {g.label: g for g in self.groups}\n        for all_groups")]},
    {'name': 'chain-dropped-from-same-residue-test', 'rule': 'C06.R1',
     'edits': [(E, """        if (atom.res_num == group.atom.res_num
                and atom.chain_id == group.atom.chain_id):""", """        if atom.res_num == group.atom.res_num:""")]},
    {'name': 'number-in-arithmetic', 'rule': 'C06.R3',
     'edits': [(E, "            dv_inc = dvol/max(min_dist_4th, sq_dist*sq_dist)", "            dv_inc = dvol/max(min_dist_4th, sq_dist*sq_dist) * (1.0 if atom.res_num * 2 > -99999 else 0.0)")]},
    {'name': 'sort-key-used-as-filter', 'rule': 'C06.R3',
     'edits': [(CC, "        return [atom for atom in self.atoms if atom.element != 'H']", "        return [atom for atom in self.atoms if atom.element != 'H'\n                and self.sort_atoms_key(atom) >= 0]")]},
    {'name': 'label-length-in-score', 'rule': 'C06.R2',
     'edits': [(G, "        self.pka_value = (\n            self.model_pka + self.energy_volume + self.energy_local)", "        self.pka_value = (\n            self.model_pka + self.energy_volume + self.energy_local) + 0.0 * float(self.label[3:7])")]},
    {'name': 'add-field-to-label-silent', 'expect': 'pass',
     'edits': [(G, 'fmt = "{g.residue_type:<3s}{a.res_num:>4d}{a.chain_id:>2s}"', 'fmt = "{g.residue_type:<3s}{a.res_num:>4d}{a.chain_id:>2s}{a.element:>0s}"')]},
    {'name': 'identity-by-is-silent', 'expect': 'pass',
     'edits': [(D, "            if group1 == group2:\n                break\n            # do not calculate", "            if group1 is group2:\n                break\n            # do not calculate")]},
    {'name': 'revert-fix-F20-folded-sort-key', 'rule': 'C06.R3',
     'edits': [(CC, "        return (ord(atom.chain_id), atom.res_num, name_key)", "        return ord(atom.chain_id) * UNICODE_MULTIPLIER + atom.res_num * RESIDUE_MULTIPLIER + name_key")]},
]
