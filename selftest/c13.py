I = 'input.py'
VARIANTS = [
    {'name': 'filter-after-nterm-bookkeeping', 'rule': 'C13.R1',
     'edits': [(I, """            if chains and line[21] not in chains:
                continue
""", ""),
               (I, """            # Identify the configuration
""", """            if chains and line[21] not in chains:
                continue
            # Identify the configuration
""")]},
    {'name': 'filter-at-yield-only', 'rule': 'C13.R1',
     'edits': [(I, """            if chains and line[21] not in chains:
                continue
""", ""),
               (I, "            yield (conformation, atom)\n", "            if not (chains and line[21] not in chains):\n                yield (conformation, atom)\n")]},
    {'name': 'filter-on-normalised-chain-id', 'rule': 'C13.R2',
     'edits': [(I, "if chains and line[21] not in chains:", "if chains and (line[21].strip() or '_') not in chains:")]},
    {'name': 'filter-wrong-column', 'rule': 'C13.R2',
     'edits': [(I, "if chains and line[21] not in chains:", "if chains and line[20] not in chains:")]},
    {'name': 'ter-made-chain-aware', 'rule': 'C13.R1',
     'edits': [(I, "        if tag.rstrip() == 'TER':\n            nterm_residue = 'next_residue'", "        if tag.rstrip() == 'TER' and not (chains and line[21] not in chains):\n            nterm_residue = 'next_residue'")]},
    {'name': 'option-not-append', 'rule': 'C13.R3',
     'edits': [('lib.py', '"-c", "--chain", action="append", dest="chains",', '"-c", "--chain", dest="chains",')]},
    {'name': 'caller-drops-chains', 'rule': 'C13.R3',
     'edits': [(I, "        keep_protons=molecule.options.keep_protons,\n        chains=molecule.options.chains)", "        keep_protons=molecule.options.keep_protons)")]},
    {'name': 'filter-inverted', 'rule': 'C13.R2',
     'edits': [(I, "if chains and line[21] not in chains:", "if chains and line[21] in chains:")]},
    {'name': 'merge-filters-silent', 'expect': 'pass',
     'edits': [(I, """            if line[17: 20].strip() in ignore_residues:
                continue
            if chains and line[21] not in chains:
                continue
""", """            if chains and line[21] not in chains:
                continue
            if line[17: 20].strip() in ignore_residues:
                continue
""")]},
    {'name': 'revert-fix-F21-selection-not-materialised', 'rule': 'C13.R2',
     'edits': [(I, "    if chains is not None:\n        chains = tuple(chains)\n", "")]},
]
