CC, G, CG, M, D = 'conformation_container.py', 'group.py', 'coupled_groups.py', 'molecular_container.py', 'determinants.py'
VARIANTS = [
    {'name': 'revert-fix-F5-conditional-recompute', 'rule': 'C02.R1',
     'edits': [(CC, """                group.remove_determinants(penalised_labels)
        # re-calculating the total pKa values
        for group in self.groups:
            group.calculate_total_pka()
""", """                group.remove_determinants(penalised_labels)
            # re-calculating the total pKa values
            for group in self.groups:
                group.calculate_total_pka()
""")]},
    {'name': 'final-recompute-deleted', 'rule': 'C02.R1',
     'edits': [(CC, """                group.remove_determinants(penalised_labels)
        # re-calculating the total pKa values
        for group in self.groups:
            group.calculate_total_pka()
""", """                group.remove_determinants(penalised_labels)
""")]},
    {'name': 'recompute-titratable-only', 'rule': 'C02.R1',
     'edits': [(CC, """        # re-calculating the total pKa values
        for group in self.groups:
            group.calculate_total_pka()
""", """        # re-calculating the total pKa values
        for group in self.get_titratable_groups():
            group.calculate_total_pka()
""")]},
    {'name': 'swap-without-recompute', 'rule': 'C02.R1',
     'edits': [(CG, """                # re-calculate pKa values
                group1.calculate_total_pka()
                group2.calculate_total_pka()
""", ""),
               (CG, """            determinant_list[:] = original
        group1.calculate_total_pka()
        group2.calculate_total_pka()
        # check difference in free energy""", """            determinant_list[:] = original
        # check difference in free energy""")]},
    {'name': 'late-determinant-edit', 'rule': 'C02.R1',
     'edits': [(M, "        # find non-covalently coupled groups\n        self.find_non_covalently_coupled_groups()\n", "        # find non-covalently coupled groups\n        self.find_non_covalently_coupled_groups()\n        for name in self.conformation_names:\n            for group in self.conformations[name].groups:\n                group.determinants['coulomb'] = [d for d in group.determinants['coulomb'] if abs(d.value) > 0.01]\n")]},
    {'name': 'energy-scaled-after-recompute', 'rule': 'C02.R1',
     'edits': [(CC, "        # take coupling effects into account\n", "        for group in self.get_titratable_groups():\n            if group.buried > 0.9:\n                group.energy_local = 0.0\n        # take coupling effects into account\n"),
               (CC, """                group.remove_determinants(penalised_labels)
        # re-calculating the total pKa values
        for group in self.groups:
            group.calculate_total_pka()
""", """                group.remove_determinants(penalised_labels)
            # re-calculating the total pKa values
            for group in self.groups:
                group.calculate_total_pka()
""")]},
    {'name': 'total-drops-local-energy', 'rule': 'C02.R2',
     'edits': [(G, "            self.model_pka + self.energy_volume + self.energy_local)\n        for determinant_type", "            self.model_pka + self.energy_volume)\n        for determinant_type")]},
    {'name': 'total-drops-backbone', 'rule': 'C02.R2',
     'edits': [(G, "        for determinant_type in ['sidechain', 'backbone', 'coulomb']:", "        for determinant_type in ['sidechain', 'coulomb']:")]},
    {'name': 'total-skips-small-determinants', 'rule': 'C02.R2',
     'edits': [(G, "            for determinant in self.determinants[determinant_type]:\n                self.pka_value += determinant.value", "            for determinant in self.determinants[determinant_type]:\n                if abs(determinant.value) < 0.005:\n                    continue\n                self.pka_value += determinant.value")]},
    {'name': 'truediv-drops-energy-volume', 'rule': 'C02.R3',
     'edits': [(G, "        self.energy_volume /= value\n", "")]},
    {'name': 'rows-from-sidechain-only', 'rule': 'C02.R4',
     'edits': [(G, "        number_of_lines = max(1, number_of_sidechain, number_of_backbone,\n                              number_of_coulomb)", "        number_of_lines = max(1, number_of_sidechain)")]},
    {'name': 'pka-column-prints-model', 'rule': 'C02.R4',
     'edits': [(G, 'str_ += " {0:6.2f}".format(self.pka_value)', 'str_ += " {0:6.2f}".format(self.model_pka)')]},
    {'name': 'summary-columns-swapped', 'rule': 'C02.R4',
     'edits': [(G, '"   {g.label:>9s} {g.pka_value:8.2f} {g.model_pka:10.2f} "', '"   {g.label:>9s} {g.model_pka:8.2f} {g.pka_value:10.2f} "')]},
    {'name': 'extra-recompute-silent', 'expect': 'pass',
     'edits': [(CC, "        # take coupling effects into account\n", "        for group in self.groups:\n            group.calculate_total_pka()\n        # take coupling effects into account\n")]},
    {'name': 'reorder-types-silent', 'expect': 'pass',
     'edits': [(G, "        for determinant_type in ['sidechain', 'backbone', 'coulomb']:", "        for determinant_type in ['coulomb', 'sidechain', 'backbone']:")]},
]
