L, O, G, M, CC = 'lib.py', 'output.py', 'group.py', 'molecular_container.py', 'conformation_container.py'
VARIANTS = [
    {'name': 'revert-fix-F8-float-accumulation', 'rule': 'C10.R1',
     'edits': [(L, """    num_steps = int((max_ - min_) / step + 1e-9)
    for i in range(num_steps + 1):
        yield min_ + i * step
""", """    x = min_
    while x <= max_:
        yield x
        x += step
""")]},
    {'name': 'grid-range-without-plus-one', 'rule': 'C10.R1',
     'edits': [(L, "for i in range(num_steps + 1):", "for i in range(num_steps):")]},
    {'name': 'grid-truncating-count', 'rule': 'C10.R1',
     'edits': [(L, "num_steps = int((max_ - min_) / step + 1e-9)", "num_steps = int((max_ - min_) / step)")]},
    {'name': 'revert-fix-F9-F27-modulus-filter-with-literals', 'rule': 'C10.R2',
     'edits': [(O, """                k = round((ph - w_min) / w_step) if w_step > 0 else 0
                if w_step <= 0 or abs(ph - (w_min + k * w_step)) < tol:""", """                if ph % w_step < 0.05 or ph % w_step > 0.95:""")]},
    {'name': 'window-origin-ignored', 'rule': 'C10.R2',
     'edits': [(O, "abs(ph - (w_min + k * w_step)) < tol", "abs(ph - k * w_step) < tol")]},
    {'name': 'window-tolerance-too-wide', 'rule': 'C10.R2',
     'edits': [(O, "        tol = 1e-6\n", "        tol = 0.05\n")]},
    {'name': 'window-exclusive-upper', 'rule': 'C10.R2',
     'edits': [(O, "if w_min - tol <= ph <= w_max + tol:", "if w_min - tol <= ph and ph < w_max:")]},
    {'name': 'revert-fix-F27-step-rounded', 'rule': 'C10.R2',
     'edits': [(O, "        w_min, w_max, w_step = (float(x) for x in window)\n", "        w_min, w_max, w_step = (float(x) for x in window)\n        w_step = float(round(Decimal(window[2]), 2))\n")]},
    {'name': 'revert-fix-F26-decimal-vs-float-bounds', 'rule': 'C10.R2',
     'edits': [(O, "            if w_min - tol <= ph <= w_max + tol:", "            ph = round(Decimal(ph), 3)\n            if ph >= window[0] and ph <= window[1]:\n                ph = float(ph)")]},
    {'name': 'optimum-max', 'rule': 'C10.R3',
     'edits': [(M, "opt = min(opt, point, key=lambda v: v[1])", "opt = max(opt, point, key=lambda v: v[1])")]},
    {'name': 'optimum-key-on-ph', 'rule': 'C10.R3',
     'edits': [(M, "opt = min(opt, point, key=lambda v: v[1])", "opt = min(opt, point, key=lambda v: v[0])")]},
    {'name': 'return-order-swapped', 'rule': 'C10.R3',
     'edits': [(M, "return profile, opt, range_80pct, stability_range", "return profile, opt, stability_range, range_80pct")]},
    {'name': 'constant-changed', 'rule': 'C10.R4',
     'edits': [(G, "UNK_PKA_SCALING = -1.36", "UNK_PKA_SCALING = -1.38")]},
    {'name': 'pk-terms-exchanged', 'rule': 'C10.R4',
     'edits': [(G, "        dpka = ph - self.pka_value\n        conc_ratio = 10**dpka\n        q_pro", "        dpka = ph - self.model_pka\n        conc_ratio = 10**dpka\n        q_pro"),
               (G, "        dpka = ph - self.model_pka\n        conc_ratio = 10**dpka\n        q_mod", "        dpka = ph - self.pka_value\n        conc_ratio = 10**dpka\n        q_mod")]},
    {'name': 'unfolded-term-different-function', 'rule': 'C10.R4',
     'edits': [(G, "q_mod = math.log10(1+conc_ratio)", "q_mod = math.log10(2+conc_ratio)")]},
    {'name': 'sum-over-titratable-only-silent', 'rule': 'C10.R4',
     'edits': [(CC, "        for group in self.groups:\n            ddg += group.calculate_folding_energy(", "        for group in self.groups[1:]:\n            ddg += group.calculate_folding_energy(")]},
    {'name': 'grid-option-not-passed', 'rule': 'C10.R5',
     'edits': [(O, "    profile = protein.get_charge_profile(conformation=conformation,\n                                         grid=protein.options.grid)", "    profile = protein.get_charge_profile(conformation=conformation)")]},
    {'name': 'window-not-passed', 'rule': 'C10.R5',
     'edits': [(O, "        protein, conformation=conformation, reference=reference,\n        window=protein.options.window)", "        protein, conformation=conformation, reference=reference)")]},
    {'name': 'grid-with-round-overshoots', 'rule': 'C10.R1',
     'edits': [(L, "num_steps = int((max_ - min_) / step + 1e-9)", "num_steps = round((max_ - min_) / step)")]},
    {'name': 'grid-with-floor-silent', 'expect': 'pass',
     'edits': [(L, "num_steps = int((max_ - min_) / step + 1e-9)", "num_steps = math.floor((max_ - min_) / step + 1e-9)")]},
]
