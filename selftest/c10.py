L, O, G, M, CC = 'lib.py', 'output.py', 'group.py', 'molecular_container.py', 'conformation_container.py'
VARIANTS = [
    {'name': 'revert-fix-F8-float-accumulation', 'rule': 'C10.R1',
     'edits': [(L, """    num_steps = int((max_ - min_) / step + 1e-9)
    for i in range(num_steps + 1):
        yield min_ + i * step
""", """    x = min_
    while x <= max_:
        yield x
        x += step
""")]},
    {'name': 'grid-range-without-plus-one', 'rule': 'C10.R1',
     'edits': [(L, "for i in range(num_steps + 1):", "for i in range(num_steps):")]},
    {'name': 'grid-truncating-count', 'rule': 'C10.R1',
     'edits': [(L, "num_steps = int((max_ - min_) / step + 1e-9)", "num_steps = int((max_ - min_) / step)")]},
    {'name': 'revert-fix-F9-window-filter', 'rule': 'C10.R2',
     'edits': [(O, """                rest = (ph - round(Decimal(window[0]), 3)) % delta
                if min(rest, delta - rest) < Decimal("0.005"):""", """                if ph % delta < 0.05 or ph % delta > 0.95:""")]},
    {'name': 'window-origin-ignored', 'rule': 'C10.R2',
     'edits': [(O, "rest = (ph - round(Decimal(window[0]), 3)) % delta", "rest = ph % delta")]},
    {'name': 'window-tolerance-too-wide', 'rule': 'C10.R2',
     'edits': [(O, 'Decimal("0.005")', 'Decimal("0.05")')]},
    {'name': 'window-exclusive-upper', 'rule': 'C10.R2',
     'edits': [(O, "if ph >= window[0] and ph <= window[1]:", "if ph >= window[0] and ph < window[1]:")]},
    {'name': 'optimum-max', 'rule': 'C10.R3',
     'edits': [(M, "opt = min(opt, point, key=lambda v: v[1])", "opt = max(opt, point, key=lambda v: v[1])")]},
    {'name': 'optimum-key-on-ph', 'rule': 'C10.R3',
     'edits': [(M, "opt = min(opt, point, key=lambda v: v[1])", "opt = min(opt, point, key=lambda v: v[0])")]},
    {'name': 'return-order-swapped', 'rule': 'C10.R3',
     'edits': [(M, "return profile, opt, range_80pct, stability_range", "return profile, opt, stability_range, range_80pct")]},
    {'name': 'constant-changed', 'rule': 'C10.R4',
     'edits': [(G, "UNK_PKA_SCALING = -1.36", "UNK_PKA_SCALING = -1.38")]},
    {'name': 'pk-terms-exchanged', 'rule': 'C10.R4',
     'edits': [(G, "        dpka = ph - self.pka_value\n        conc_ratio = 10**dpka\n        q_pro", "        dpka = ph - self.model_pka\n        conc_ratio = 10**dpka\n        q_pro"),
               (G, "        dpka = ph - self.model_pka\n        conc_ratio = 10**dpka\n        q_mod", "        dpka = ph - self.pka_value\n        conc_ratio = 10**dpka\n        q_mod")]},
    {'name': 'unfolded-term-different-function', 'rule': 'C10.R4',
     'edits': [(G, "q_mod = math.log10(1+conc_ratio)", "q_mod = math.log10(2+conc_ratio)")]},
    {'name': 'sum-over-titratable-only-silent', 'rule': 'C10.R4',
     'edits': [(CC, "        for group in self.groups:\n            ddg += group.calculate_folding_energy(", "        for group in self.groups[1:]:\n            ddg += group.calculate_folding_energy(")]},
    {'name': 'grid-option-not-passed', 'rule': 'C10.R5',
     'edits': [(O, "    profile = protein.get_charge_profile(conformation=conformation,\n                                         grid=protein.options.grid)", "    profile = protein.get_charge_profile(conformation=conformation)")]},
    {'name': 'window-not-passed', 'rule': 'C10.R5',
     'edits': [(O, "        protein, conformation=conformation, reference=reference,\n        window=protein.options.window)", "        protein, conformation=conformation, reference=reference)")]},
    {'name': 'grid-with-round-overshoots', 'rule': 'C10.R1',
     'edits': [(L, "num_steps = int((max_ - min_) / step + 1e-9)", "num_steps = round((max_ - min_) / step)")]},
    {'name': 'grid-with-floor-silent', 'expect': 'pass',
     'edits': [(L, "num_steps = int((max_ - min_) / step + 1e-9)", "num_steps = math.floor((max_ - min_) / step + 1e-9)")]},
]
