E, D, C, K = 'energy.py', 'determinants.py', 'propka.cfg', 'calculations.py'
VARIANTS = [
    {'name': 'revert-fix-F2-finite-sentinel', 'rule': 'C05.R3',
     'edits': [(K, "    res_dist = math.inf\n", "    res_dist = MAX_DISTANCE\n")]},
    {'name': 'desolvation-guard-removed', 'rule': 'C05.R1',
     'edits': [(E, "        if sq_dist < parameters.desolv_cutoff_squared:\n", "        if True:\n")]},
    {'name': 'buried-guard-plain-vs-squared', 'rule': 'C05.R1',
     'edits': [(E, "        if sq_dist < parameters.buried_cutoff_squared:", "        if sq_dist < parameters.buried_cutoff:")]},
    {'name': 'ion-guard-inverted', 'rule': 'C05.R1',
     'edits': [(D, "            if dist_sq < version.parameters.coulomb_cutoff2_squared:", "            if dist_sq > version.parameters.coulomb_cutoff2_squared:")]},
    {'name': 'sidechain-pairs-unguarded', 'rule': 'C05.R1',
     'edits': [(D, "            if distance < version.parameters.coulomb_cutoff2:\n", "            if distance < 1e9:\n")]},
    {'name': 'backbone-distance-guard-dropped', 'rule': 'C05.R1',
     'edits': [(D, "            if distance < cutoff2:\n", "            if dpka_max:\n")]},
    {'name': 'reorganisation-guard-dropped', 'rule': 'C05.R1',
     'edits': [(E, "            if dist < UNK_BACKBONE_DISTANCE1 and f_angle > UNK_FANGLE_MIN:", "            if f_angle > UNK_FANGLE_MIN:")]},
    {'name': 'hbond-outer-cutoff-gate-removed', 'rule': 'C05.R1',
     'edits': [(E, "    if dist >= cutoff[1]:\n        return None\n", "")]},
    {'name': 'cutoff-above-horizon', 'rule': 'C05.R2',
     'edits': [(C, "desolv_cutoff 			   20.0", "desolv_cutoff 			   35.0")]},
    {'name': 'sidechain-cutoff-above-horizon', 'rule': 'C05.R2',
     'edits': [(C, "sidechain_cutoffs CYS CYS 3.0  5.0", "sidechain_cutoffs CYS CYS 3.0  25.0")]},
    {'name': 'none-check-to-assert', 'rule': 'C05.R3',
     'edits': [(E, """    if closest_atom1 is None or closest_atom2 is None:
        _LOGGER.warning(
            'Side chain interaction failed for {0:s} and {1:s}'.format(
                group1.label, group2.label))
        return None
""", """    assert closest_atom1 is not None and closest_atom2 is not None
""")]},
    {'name': 'backbone-nonempty-guard-dropped', 'rule': 'C05.R3',
     'edits': [(D, "            if not backbone_interaction_atoms:\n                continue\n", "")]},
    {'name': 'guard-in-lte-form-silent', 'expect': 'pass',
     'edits': [(E, "        if sq_dist < parameters.desolv_cutoff_squared:\n", "        if sq_dist <= parameters.desolv_cutoff_squared:\n")]},
    {'name': 'float-inf-silent', 'expect': 'pass',
     'edits': [(K, "    res_dist = math.inf\n", "    res_dist = float('inf')\n")]},
]
