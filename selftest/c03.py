CC, G, CG, E, L, R, D, P = 'conformation_container.py', 'group.py', 'coupled_groups.py', 'energy.py', 'lib.py', 'run.py', 'determinants.py', 'protonate.py'
VARIANTS = [
    {'name': 'revert-fix-F6-set-pop', 'rule': 'C03.R3',
     'edits': [(CC, """        remaining = dict.fromkeys(groups)
        while len(remaining) > 0:
            # extract a system of coupled groups ...
            system: Dict[Group, None] = {}
            self.get_a_coupled_system_of_groups(
                next(iter(remaining)), system, get_coupled_groups)
            # ... and remove them from the list
            for group in system:
                remaining.pop(group, None)
            yield list(system)
""", """        remaining = set(groups)
        while len(remaining) > 0:
            # extract a system of coupled groups ...
            system: Dict[Group, None] = {}
            self.get_a_coupled_system_of_groups(
                remaining.pop(), system, get_coupled_groups)
            # ... and remove them from the list
            remaining -= set(system)
            yield list(system)
""")]},
    {'name': 'bonded-groups-back-to-set', 'rule': 'C03.R3',
     'edits': [(CC, "        res: Dict[Group, None] = {}\n        for bond_atom in atom.bonded_atoms:", "        res = set()\n        for bond_atom in atom.bonded_atoms:"),
               (CC, "                res[bond_atom.group] = None\n", "                res.add(bond_atom.group)\n"),
               (CC, "                res.update(self.find_bonded_titratable_groups(\n                    bond_atom, num_bonds+1, original_atom))", "                res |= self.find_bonded_titratable_groups(\n                    bond_atom, num_bonds+1, original_atom)")]},
    {'name': 'new-for-over-set', 'rule': 'C03.R3',
     'edits': [(CC, "        for group in self.get_titratable_groups() + self.get_ions():\n            version.calculate_desolvation(group)", "        for group in set(self.get_titratable_groups() + self.get_ions()):\n            version.calculate_desolvation(group)")]},
    {'name': 'set-passed-to-sink-param', 'rule': 'C03.R3',
     'edits': [(CC, "                        self.share_determinants(same_sign)", "                        self.share_determinants(set(same_sign))")]},
    {'name': 'module-level-cache', 'rule': 'C03.R1',
     'edits': [(E, "def calculate_scale_factor(parameters, weight: float) -> float:", "_WEIGHT_CACHE = {}\n\n\ndef calculate_scale_factor(parameters, weight: float) -> float:"),
               (E, "    weight = min(1.0, weight)\n    weight = max(0.0, weight)\n    return weight\n\n\ndef calculate_pair_weight", "    weight = min(1.0, weight)\n    weight = max(0.0, weight)\n    _WEIGHT_CACHE[num_volume] = weight\n    return weight\n\n\ndef calculate_pair_weight")]},
    {'name': 'class-level-mutable-default', 'rule': 'C03.R1',
     'edits': [('atom.py', "    groups_extracted: bool = False\n", "    groups_extracted: bool = False\n    seen_labels = []\n")]},
    {'name': 'module-level-parser', 'rule': 'C03.R1',
     'edits': [(L, "def loadOptions(args=None) -> Options:", "_PARSER = argparse.ArgumentParser()\n\n\ndef loadOptions(args=None) -> Options:")]},
    {'name': 'mutable-default-argument', 'rule': 'C03.R1',
     'edits': [(D, "def set_determinants(propka_groups: List[Group], version: Version, options=None):", "def set_determinants(propka_groups: List[Group], version: Version, options=None, seen=[]):")]},
    {'name': 'parameters-written-during-calculation', 'rule': 'C03.R1',
     'edits': [(E, "    group.buried = calculate_weight(parameters, group.num_volume)", "    parameters.VanDerWaalsVolume.setdefault(group.atom.element, 1.0)\n    group.buried = calculate_weight(parameters, group.num_volume)")]},
    {'name': 'class-attribute-counter', 'rule': 'C03.R1',
     'edits': [(G, "        self.atom = atom\n        self.type = ''\n", "        self.atom = atom\n        self.type = ''\n        Group.created = getattr(Group, 'created', 0) + 1\n")]},
    {'name': 'singleton-new-state', 'rule': 'C03.R1',
     'edits': [(P, "        if atom.is_protonated:\n            return\n", "        if atom.is_protonated:\n            return\n        self.last_atom = atom\n")]},
    {'name': 'random-tie-break', 'rule': 'C03.R2',
     'edits': [(CC, "import logging\nimport functools\n", "import logging\nimport functools\nimport random\n"),
               (CC, "            first_group = max(all_groups, key=lambda g: g.pka_value)", "            first_group = max(all_groups, key=lambda g: (g.pka_value, random.random()))")]},
    {'name': 'time-in-calculation', 'rule': 'C03.R2',
     'edits': [(E, "import math\nimport logging\n", "import math\nimport logging\nimport time\n"),
               (E, "    volume = 0.0\n    group.num_volume = 0\n", "    volume = 0.0 * time.time()\n    group.num_volume = 0\n")]},
    {'name': 'stream-used-for-name', 'rule': 'C03.R4',
     'edits': [('input.py', "    mol_container.name = input_path.stem\n", "    mol_container.name = input_path.stem if stream is None else 'stream'\n")]},
    {'name': 'new-constant-table-silent', 'expect': 'pass',
     'edits': [(E, "UNK_MIN_DISTANCE = 2.75\n", "UNK_MIN_DISTANCE = 2.75\nELEMENT_ORDER = ('C', 'N', 'O', 'S')\nRADII = {'C': 1.7, 'N': 1.55}\n")]},
    {'name': 'set-for-membership-silent', 'expect': 'pass',
     'edits': [(E, "            if atom.element == 'C' and atom.name not in ['CA', 'C']:", "            if atom.element == 'C' and atom.name not in {'CA', 'C'}:")]},
    {'name': 'path-route-replaces-undecodable-bytes', 'rule': 'C03.R4',
     'edits': [('input.py', "    return contextlib.closing(open(input_file, 'rt'))", "    return contextlib.closing(open(input_file, 'rt', errors='replace'))")]},
    {'name': 'zip-route-strips-bom', 'rule': 'C03.R4',
     'edits': [('input.py', "            return io.TextIOWrapper(stream)", "            return io.TextIOWrapper(stream, encoding='utf-8-sig')")]},
    {'name': 'path-route-default-mode-silent', 'expect': 'pass',
     'edits': [('input.py', "    return contextlib.closing(open(input_file, 'rt'))", "    return contextlib.closing(open(input_file))")]},
]
