#!/usr/bin/env python3
"""run_check.py <Cxx> [--tier quick|thorough] [--root DIR] [--replay FILE]

Decides one property for the tree under --root (default /repo) by static
analysis only.  Exit 0: held (KNOWN-FINDING lines for listed findings);
exit 1: VIOLATION lines; exit 2: ANALYSIS-ERROR (anchor missing / checker
failure) - never a silent pass.
"""
import argparse
import importlib
import json
import os
import sys
import time
import traceback

HERE = os.path.dirname(os.path.abspath(__file__))
sys.path.insert(0, HERE)

from sa.loader import load, AnalysisError  # noqa: E402
from sa.report import Ctx, write_error_evidence  # noqa: E402


def main(argv=None):
    parser = argparse.ArgumentParser()
    parser.add_argument('prop')
    parser.add_argument('--tier', default=os.environ.get('VERIF_TIER', 'quick'),
                        choices=['quick', 'thorough'])
    parser.add_argument('--root', default=os.environ.get('VERIF_ROOT', '/repo'))
    parser.add_argument('--replay', default=None)
    parser.add_argument('--no-selftest', action='store_true')
    parser.add_argument('--list', action='store_true', help='print every obligation')
    args = parser.parse_args(argv)
    prop = args.prop.upper()
    seed = int(os.environ.get('VERIF_SEED', '0') or 0)
    start = time.time()
    is_repo = os.path.realpath(args.root) == os.path.realpath('/repo')
    try:
        module = importlib.import_module('checks.' + prop.lower())
        prog = load(args.root)
        ctx = Ctx(prop, args.tier, prog, seed, root_is_repo=is_repo)
        module.run(ctx)
        if args.tier == 'thorough' and hasattr(module, 'run_thorough'):
            module.run_thorough(ctx)
        if args.tier == 'thorough' and is_repo and not args.no_selftest:
            from sa import mutate
            ctx.selftest = mutate.selftest(prop, args.root, seed)
        if args.list:
            for o in ctx.obligations:
                print('{0} {1:10s} {2}  -- {3}'.format('ok ' if o['ok'] else 'BAD', o['rule'], o['key'], o['what'][:150]))
        only = None
        if args.replay:
            with open(args.replay, encoding='utf-8') as handle:
                only = json.load(handle)['key']
        return ctx.finish(only_key=only)
    except AnalysisError as err:
        print('ANALYSIS-ERROR property={0} {1}'.format(prop, err))
        if is_repo:
            write_error_evidence(prop, args.tier, seed, str(err), start)
        return 2
    except Exception:  # checker bug: never report as a violation
        print('ANALYSIS-ERROR property={0} checker failure'.format(prop))
        traceback.print_exc()
        if is_repo:
            write_error_evidence(prop, args.tier, seed, 'checker failure', start)
        return 2


if __name__ == '__main__':
    sys.exit(main())
